"""Golden self-tests of the reference models (run by setup_cmd).  The expected values are the
repository's own documented examples (gen_test, macro_application_test, lrparser_test, scan_test)."""
import itertools
import os
import random
import sys

sys.path.insert(0, os.path.dirname(os.path.dirname(os.path.abspath(__file__))))
sys.setrecursionlimit(20000)
from vlib.ref import bytecode, cfg, includes, lexer as L, lr, macros, patterns, pipeline  # noqa: E402

FAIL = []


def check(name, cond, detail=""):
    if not cond:
        FAIL.append("%s %s" % (name, detail))


def t_lexer():
    alpha = "ax1 \n:=!0<>$#/\"E(-;"
    n = 0
    for ln in range(1, 4):
        for w in itertools.product(alpha, repeat=ln):
            s = "".join(w)
            if L.tokenize(s) != L.tokenize_spec(s):
                check("lexer fast==spec", False, repr(s))
                return
            n += 1
    rnd = random.Random(7)
    words = [w for ws in L.SPELL.values() for w in ws] + ["x", "ENDDEFx", "!=  0", "<Args", "$01", "#7", "//c\n",
                                                         "\"a\nb\"", "END  DEFINE", "x0", "007", "\r", "\x00", "\xff"]
    for _ in range(3000):
        s = "".join(rnd.choice(words) + rnd.choice(["", " ", "\n", ";"]) for _ in range(rnd.randint(1, 8)))
        if L.tokenize(s) != L.tokenize_spec(s):
            check("lexer fast==spec (soup)", False, repr(s))
            return
    toks = L.tokenize('x0 := x0 + 1; // c\nEND DEFINE ENDDEF "f\ng" <P> $12 #0 != 0 !=0')
    kinds = [k for k, _, _ in toks]
    check("lexer kinds", kinds == [L.ID, L.ASSIGN, L.ID, L.NV_ID, L.INT, L.PROGSEP, L.END_DEFINE, L.END_DEFINE, L.FNAME,
                                   L.PROG_TEMP, L.INSERTION, L.TEMP_VAL, L.NEQ_ZERO, L.NV_ID, L.EQ, L.INT], str(kinds))
    check("lexer fname line", toks[8][2] == 3, str(toks[8]))


BASEMATH = """PROGRAM add IN x0, x1 OUT x0 DO
  WHILE x1 != 0 DO
    x0 := x0 + 1;
    x1 := x1 - 1
  END
END

Program mul In x1, x2 Do
  start:
   if x2 = 0 then goto finish;
   x0 := x0 + x1;
   x2 := x2 - 1;
   goto start;
  finish: NOP
END
DEFINE PRIO 10 <V> + <V> AS add($0,$1) END DEFINE
DEFINE PRIO 20 <V> * <V> AS mul($0,$1) END DEFINE
DEFINE PRIO 30 <ID>(<ARGS>) AS RUN $0 WITH $1 END END DEFINE
DEFINE NOP AS _ := 0 END DEFINE
DEFINE
  IF <V> THEN <P> ELSE <P> END
AS
  #0 := 0;
  #1 := 1;
  #2 := $0;
  loop #2 do
    #0 := 1;
    #1 := 0
  end;
  loop #0 do $1 end;
  loop #1 do $2 end
END DEFINE
"""
FIB = """INCLUDE "basemath.theo"
PROGRAM fib IN x2 DO
  x0 := 1;
  x1 := 1;
  x2 := x2 - 2;
  LOOP x2 DO
    temp := x1;
    x1 := x0;
    x0 := temp + x0
  END
END
"""
GEN_TEST = """INCLUDE "math.theo"
//NOTE: double include just overrides
INCLUDE "basemath.theo"
x0 := 13;
x1 := 42;
x2 := mul(x0 * x1, add(2, 2));
fibres := fib(25);
IF fibres THEN one := 1 ELSE one := 2 END;
IF 0 THEN two := 1 ELSE two := 2 END
  """


def t_gen_test():
    files = {"gen_test.theo": GEN_TEST, "basemath.theo": BASEMATH, "math.theo": FIB}
    f = pipeline.front(files, "gen_test.theo")
    check("gen_test accepted by reference", f.verdict, f.reason)
    if not f.verdict:
        return
    st, it = pipeline.run(f, 5000000)
    v = it.final()[0][1]
    check("gen_test values", st == "done" and v.get("x2") == 2184 and v.get("fibres") == 75025 and v.get("one") == 1
          and v.get("two") == 2, "%s %s" % (st, {k: v.get(k) for k in ("x2", "fibres", "one", "two")}))


def t_macro_application():
    inc = "DEFINE PRIORITY 10\n    <V> + <V>\nAS\n    add($0, $1)\nEND DEFINE\nDEFINE PRIORITY 30\n   <ID>(<ARGS>)\nAS\n   RUN $0 WITH $1 END\nEND DEFINE\n  "
    main = "include \"included.theo\"\nDEFINE PRIORITY 20\n    <V> * <V>\nAS\n   mul($0, $1)\nEND DEFINE\nDEFINE PRIORITY 5\n   (<V>)\nAS\n   $0\nEND DEFINE\n((1+2)*3)*4\n\n"
    r = includes.resolve({"main.theo": main, "included.theo": inc}, "main.theo")
    prog, ms = macros.extract(r.toks)
    out, n, ex, _ = macros.expand(prog, ms, 100)
    got = " ".join(t[1] for t in out)
    check("macro_application_test expansion", got == "RUN mul WITH RUN mul WITH RUN add WITH 1 , 2 END , 3 END , 4 END",
          got)


def t_lr():
    # lrparser_test's calculator grammar: 0 E' 1 E 2 T 3 F ; terminals (shifted by one, 0 is $):
    # 1 + 2 * 3 ( 4 ) 5 digit
    n = lambda i: ("n", i)
    t = lambda i: ("t", i)
    rules = [(0, (n(1),)), (1, (n(1), t(1), n(2))), (1, (n(2),)), (2, (n(2), t(2), n(3))), (2, (n(3),)),
             (3, (t(3), n(1), t(4))), (3, (t(5),))]
    b = lr.build(rules, 4, 0, False, [t(i) for i in range(6)])
    check("calculator grammar is LR(1)", b["conflicts"] == 0)
    o = cfg.Oracle(rules, 4)
    check("2+2*2 in language", len(o.trees([5, 1, 5, 2, 5], 0)) == 1)
    check("2+*2 not in language", len(o.trees([5, 1, 2, 5], 0)) == 0)
    amb = [(0, (n(0), t(1), n(0))), (0, (t(2),))]
    check("E->E+E|a ambiguous", lr.build(amb, 1, 0, False, [t(i) for i in range(3)])["conflicts"] > 0
          and len(cfg.Oracle(amb, 1).trees([2, 1, 2, 1, 2], 0)) == 2)
    # macro_compilation_test: a pattern ending in <P> is not usable, `IF <V> THEN <P> ELSE <P> END` is
    check("pattern '<P>' tail rejected", not patterns.deterministic([L.ID, L.PROG_TEMP]))
    check("pattern IF..END accepted", patterns.deterministic([L.IF, L.VALUE_TEMP, L.THEN, L.PROG_TEMP, L.ID,
                                                            L.PROG_TEMP, L.END]))
    check("pattern '<P> ;' rejected", not patterns.deterministic([L.ID, L.PROG_TEMP, L.PROGSEP, L.ID]))
    check("pattern '<ARGS> ,' rejected", not patterns.deterministic([L.ID, L.ARGS_TEMP, L.ARGSEP, L.ID]))


def t_lr_run():
    """the reference's LR run (the oracle of C13's long inputs) against the brute-force oracle on every short input of 150
    random conflict-free grammars, in full and in prefix reading; sampled words against their generating derivation"""
    import itertools
    import random
    from vlib.props import c13
    rnd = random.Random(20260928)
    done = 0
    while done < 150:
        nnt, nt, rules = c13.gen(rnd, rnd.choice([False, False, "wide", "prefix"]))
        maxt = max([s[1] for l, r in rules for s in r if s[0] == "t"] + [0])
        if not maxt or maxt > 3:
            continue
        tab = lr.build(rules, nnt, 0, False, [("t", i) for i in range(1, maxt + 1)])
        if tab["conflicts"] or c13.cyclic(rules, nnt):
            continue
        done += 1
        o = cfg.Oracle(rules, nnt)
        for n in range(0, 5):
            for w in itertools.product(range(1, maxt + 1), repeat=n):
                w = list(w)
                trees = o.trees(w, 0)
                got = lr.parse(tab, w)
                if (got is None) != (not trees) or (trees and (len(trees) != 1 or trees[0] != got)):
                    check("lr.parse == brute force on %s for %s" % (w, rules), False, "%s vs %s" % (got, trees))
                    return
                mem = lr.prefix_members(tab, w)
                exp = [(k, o.trees(w[:k], 0)[0]) for k in range(len(w) + 1) if o.trees(w[:k], 0)]
                if mem != exp:
                    check("lr.prefix_members == brute force on %s for %s" % (w, rules), False, "%s vs %s" % (mem, exp))
                    return
        sw = lr.sample_word(rnd, rules, nnt, 0, 12, 60)
        if sw is not None and lr.parse(tab, sw[0]) != sw[1]:
            check("sampled word parses to its derivation (%s)" % (rules,), False)
            return
    check("reference LR run agrees with brute force", True)


def t_includes():
    files = {"m": 'a include "x" b include "m" include "y" c include', "x": "q"}
    r = includes.resolve(files, "m")
    check("include splice", [t[1] for t in r.toks] == ["a", "q", "b", "c"], str(r.toks))
    check("include errors", [(e[0], e[3]) for e in r.errors] == [(includes.RECURSIVE_INCLUDE, ""),
                                                                  (includes.FILE_NOT_FOUND, "y"),
                                                                  (includes.EXPECTED_FILENAME, "")], str(r.errors))
    r = includes.resolve(files, "nope")
    check("missing main", r.requests == ["nope"] and r.errors[0][0] == includes.MAIN_FILE_NOT_FOUND)


def t_bytecode():
    # PREPARE 2,0,0 ; CONST r0=1 ; HALT   is fine ; CONST r2 is not
    ok, _ = bytecode.verify([[6, 2, 0, 0], [10, 0, 1], [2]], [["#root", [[0, "x"]]]])
    bad, _ = bytecode.verify([[6, 2, 0, 0], [10, 2, 1], [2]], [["#root", [[0, "x"]]]])
    check("verifier accepts", ok == [], str(ok))
    check("verifier rejects out-of-frame register", bad != [])


def main():
    for t in (t_lexer, t_gen_test, t_macro_application, t_lr, t_lr_run, t_includes, t_bytecode):
        try:
            t()
        except Exception as e:  # noqa
            import traceback
            FAIL.append("%s raised %s" % (t.__name__, traceback.format_exc()[-1500:]))
    if FAIL:
        print("reference-model self-test FAILED:")
        for f in FAIL:
            print("  " + f)
        sys.exit(1)
    print("reference-model self-tests passed")


if __name__ == "__main__":
    main()
