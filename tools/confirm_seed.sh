#!/bin/sh
# development tool: confirm an independently seeded change: (1) builds, (2) the 12 tests pass with it,
# (3) its demonstration passes without the change and fails with it.  usage: confirm_seed.sh <dir with patch.diff demo.cpp build_demo.sh>
set -u
D=$(readlink -f "$1")
W=$(mktemp -d /var/tmp/confirm.XXXXXX)
git -C /repo worktree add -q --detach "$W/wt" HEAD || exit 2
cleanup() { git -C /repo worktree remove --force "$W/wt" 2>/dev/null; rm -rf "$W"; }
trap cleanup EXIT
cd "$W/wt"
build() { cmake -G Ninja -B build -DCMAKE_BUILD_TYPE=RelWithDebInfo >/dev/null 2>&1 && cmake --build build >"$W/build.log" 2>&1; }
build || { echo "UNPATCHED BUILD FAILED"; tail -5 "$W/build.log"; exit 2; }
cp "$D/demo.cpp" "$W/demo.cpp"
( cd "$W" && sh "$D/build_demo.sh" "$W/wt" "$W/wt/build" >"$W/demo_clean.log" 2>&1 ); RC0=$?
echo "demo on unchanged tree: exit $RC0"
git checkout -q -- . 2>/dev/null
git apply "$D/patch.diff" || { echo "PATCH DOES NOT APPLY"; exit 2; }
build || { echo "PATCHED BUILD FAILED"; tail -5 "$W/build.log"; exit 1; }
ctest --test-dir build -j8 >"$W/ctest.log" 2>&1; RCT=$?
echo "ctest with change: exit $RCT ($(grep -c Passed "$W/ctest.log") passed)"
( cd "$W" && sh "$D/build_demo.sh" "$W/wt" "$W/wt/build" >"$W/demo_patched.log" 2>&1 ); RC1=$?
echo "demo with change: exit $RC1"
tail -4 "$W/demo_patched.log" | cut -c1-300
if [ $RC0 -eq 0 ] && [ $RCT -eq 0 ] && [ $RC1 -ne 0 ]; then echo "CONFIRMED"; else echo "NOT CONFIRMED"; fi
