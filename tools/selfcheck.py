#!/usr/bin/env python3
"""development tool (not a registered check): sensitivity of the checks against the mutant corpus.
For every mutants/*.patch: scratch worktree of /repo, apply, run the repository's own 12 tests (guard off),
run the expected quick checks against that tree (VERIF_REPO_ROOT), record which ones exit 1.
Results: mutants/RESULTS.json .  usage: tools/selfcheck.py [name-substring ...]"""
import json
import os
import subprocess
import sys
import tempfile
import time

V = os.path.dirname(os.path.dirname(os.path.abspath(__file__)))


def run(cmd, env=None, timeout=3000):
    e = dict(os.environ)
    if env:
        e.update(env)
    p = subprocess.run(cmd, stdout=subprocess.PIPE, stderr=subprocess.STDOUT, env=e, timeout=timeout)
    return p.returncode, p.stdout.decode("latin-1")


def main():
    idx = json.load(open(os.path.join(V, "mutants", "INDEX.json")))
    sel = sys.argv[1:]
    resp = os.path.join(V, "mutants", "RESULTS.json")
    results = json.load(open(resp)) if os.path.exists(resp) else {}
    for m in idx:
        if sel and not any(s in m["name"] for s in sel):
            continue
        w = tempfile.mkdtemp(prefix="selfcheck.", dir="/var/tmp")
        wt = os.path.join(w, "wt")
        try:
            run(["git", "-C", "/repo", "worktree", "add", "-q", "--detach", wt, "HEAD"])
            rc, out = run(["git", "-C", wt, "apply", os.path.join(V, "mutants", m["name"] + ".patch")])
            if rc != 0:
                results[m["name"]] = {"error": "patch does not apply: " + out[-300:]}
                continue
            t0 = time.time()
            rc, out = run([os.path.join(V, "baseline_off")], {"VERIF_REPO_ROOT": wt})
            tests_pass = rc == 0
            res = {"tests_pass": tests_pass, "checks": {}}
            if not tests_pass:
                res["note"] = out[-400:]
            for c in m["expected_checks"]:
                t1 = time.time()
                rc, out = run([os.path.join(V, "check"), c, "--tier", "quick"],
                              {"VERIF_REPO_ROOT": wt, "VERIF_OUT_DIR": os.path.join(w, "out")})
                sig = [l.strip() for l in out.splitlines() if l.strip().startswith("signature:")]
                res["checks"][c] = {"rc": rc, "seconds": round(time.time() - t1), "signatures": sig[:3]}
            results[m["name"]] = res
            caught = [c for c, r in res["checks"].items() if r["rc"] == 1]
            print("%-34s tests_pass=%s caught_by=%s missed_by=%s" % (m["name"], tests_pass, caught,
                  [c for c, r in res["checks"].items() if r["rc"] != 1]), flush=True)
        finally:
            run(["git", "-C", "/repo", "worktree", "remove", "--force", wt])
            run(["rm", "-rf", w])
            json.dump(results, open(resp, "w"), indent=1)


if __name__ == "__main__":
    main()
