#!/bin/sh
# like process_seed.sh for round-2 directories /tmp/seeds/out7-<ID>
ID=$1; SUF=$2; shift 2
V=$(cd "$(dirname "$0")/.." && pwd)
R=$("$V/tools/confirm_seed.sh" /tmp/seeds/out7-$ID 2>&1 | tail -3)
echo "$R" | cut -c1-200
case "$R" in *"NOT CONFIRMED"*) echo "seed $ID not confirmed - not imported"; exit 1;; esac
d="$V/seeded/$ID-$SUF"; mkdir -p "$d"
cp /tmp/seeds/out7-$ID/patch.diff /tmp/seeds/out7-$ID/demo.cpp /tmp/seeds/out7-$ID/build_demo.sh "$d/"
python3 - "$ID" "$d" <<'PY'
import json,sys
pid,d=sys.argv[1],sys.argv[2]
try: m=json.load(open('/tmp/seeds/out7-%s/meta.json'%pid))
except Exception as e: m={"property":pid,"summary":"(meta.json unreadable: %s)"%e}
m['origin']='independent sub-agent (round 7: told the property text, the five or six earlier ideas to avoid, and asked for changes that only show when two ordinary things meet: rarely combined features, unusual but legal API use, inputs exactly on a limit or at the very beginning or end)'
m['confirmed_by_me']='tools/confirm_seed.sh: unpatched build + demo exit 0; patched build ok; ctest 12/12 pass; demo exit non-zero'
json.dump(m,open(d+'/meta.json','w'),indent=1)
PY
SKIP_BASELINE=1 SHOWLINES=${SHOWLINES:-4} "$V/tools/trypatch.sh" "$d/patch.diff" quick "$@" 2>&1 | cut -c1-300
