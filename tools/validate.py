#!/usr/bin/env python3
import json, sys, glob, os
import jsonschema
V = os.path.dirname(os.path.dirname(os.path.abspath(__file__)))
jsonschema.validate(json.load(open(V + '/MANIFEST.json')), json.load(open('/root/.vp/MANIFEST.schema.json')))
sch = json.load(open('/root/.vp/EVIDENCE.schema.json'))
for p in sorted(glob.glob(V + '/evidence/*.json')):
    jsonschema.validate(json.load(open(p)), sch)
    print('ok', os.path.basename(p))
print('manifest ok')
