#!/usr/bin/env python3
"""regenerate MANIFEST.json from the property modules that exist (others go to not_applicable)"""
import importlib
import json
import os
import subprocess
import sys

V = os.path.dirname(os.path.dirname(os.path.abspath(__file__)))
sys.path.insert(0, V)
props = [json.loads(l) for l in open(os.path.join(V, "properties.jsonl"))]
checks, na = [], []
LEVEL_TEXT = {}
for p in props:
    pid = p["id"]
    try:
        m = importlib.import_module("vlib.props." + pid.lower())
    except ImportError:
        na.append({"property_id": pid, "reason": "check not built yet in this revision (planned, see DESIGN.md section 4)"})
        continue
    checks.append({
        "property_id": pid,
        "quick_cmd": "./check %s --tier quick" % pid,
        "thorough_cmd": "./check %s --tier thorough" % pid,
        "evidence_file": "evidence/%s.json" % pid,
        "replay_cmd_template": "./check %s --replay {path}" % pid,
        "engine": "vlib",
        "technique": m.TECHNIQUE,
        "level_claimed": {"category": m.LEVEL, "text": getattr(m, "LEVEL_TEXT", "held on the executions explored: " + m.RULE),
                          "design_ref": "DESIGN.md section 4, " + pid},
        "level_note": "; ".join(getattr(m, "ASSUMPTIONS", [])),
    })
hooks = subprocess.run(["git", "-C", "/repo", "log", "--format=%H %s", "--grep=^verif hook"], capture_output=True, text=True).stdout
man = {
    "version": 1,
    "setup_cmd": "./setup",
    "hooks": {"guard": "THEO_IDE_LIBTHEO_VERIF",
              "enable": "vlib/build.py compiles the working tree directly with g++ -DTHEO_IDE_LIBTHEO_VERIF (per sanitizer flavour) into /verif/.cache/<tree hash>/",
              "baseline_off_cmd": "./baseline_off",
              "source_commits": [l.split()[0] for l in hooks.splitlines()],
              "add_only": True},
    "engines": [{"name": "vlib", "path": "vlib/", "serves_properties": [c["property_id"] for c in checks],
                 "kind_free_text": "runtime monitoring: sanitizer-instrumented drivers (drivers/*.cpp) executing the real library on generated / enumerated / mutated inputs, judged offline by independent reference models (vlib/ref) and inline shadow monitors"}],
    "checks": checks,
    "not_applicable": na,
    "notes": "exit 0 held, 1 violation (VIOLATION line + replay file), 2 inconclusive/harness failure; VERIF_SEED selects the workload; known findings in known_findings.json",
}
json.dump(man, open(os.path.join(V, "MANIFEST.json"), "w"), indent=1)
print("checks:", [c["property_id"] for c in checks], "not_applicable:", len(na))
