#!/usr/bin/env python3
"""development aid: line coverage of the repository's sources under the quick workloads of the given checks
(gcov on the `cov` flavour).  usage: tools/coverage.py C01 C02 ...   -> prints per-file coverage and uncovered lines"""
import glob
import os
import re
import subprocess
import sys

V = os.path.dirname(os.path.dirname(os.path.abspath(__file__)))
sys.path.insert(0, V)
from vlib import build  # noqa

checks = sys.argv[1:]
res = build.build("cov", "generated", drivers=("theo_drv",))
objdir = os.path.dirname(res["theo_drv"])
for f in glob.glob(os.path.join(objdir, "*.gcda")):
    os.remove(f)
env = dict(os.environ, VERIF_COVERAGE="1", VERIF_OUT_DIR="/var/tmp/cov_out")
for c in checks:
    p = subprocess.run([os.path.join(V, "check"), c, "--tier", "quick"], env=env, stdout=subprocess.PIPE, stderr=subprocess.STDOUT)
    print(c, "rc", p.returncode, p.stdout.decode("latin-1").strip().splitlines()[-2][:160])
os.chdir(objdir)
out = subprocess.run(["gcov", "-b"] + sorted(glob.glob("*.gcda")), stdout=subprocess.PIPE, stderr=subprocess.STDOUT).stdout.decode("latin-1")
for m in re.finditer(r"File '([^']+)'\nLines executed:([\d.]+)% of (\d+)", out):
    f = m.group(1)
    if "/repo/" in f or os.environ.get("VERIF_REPO_ROOT", "/repo") in f:
        if "/usr/" not in f and "lex." not in f:
            print("%6s%% of %4s lines  %s" % (m.group(2), m.group(3), f))
if "--uncovered" in os.environ.get("COV_OPTS", "--uncovered"):
    for g in sorted(glob.glob("*.gcov")):
        if any(x in g for x in ("vm.cpp", "gen.cpp", "parse.cpp", "macro.cpp", "scan.cpp", "lrparser.hpp", "lrdea.cpp", "grammar.cpp", "compiler.cpp", "program.cpp", "ast.cpp")):
            miss = [l for l in open(g, errors="replace") if l.lstrip().startswith("#####")]
            if miss:
                print("--- uncovered in", g)
                for l in miss[:60]:
                    print("   ", l.rstrip()[:150])
