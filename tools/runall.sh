#!/bin/sh
# run every check of a tier; print one line per check
TIER=${1:-quick}
cd "$(dirname "$0")/.."
for i in 01 02 03 04 05 06 07 08 09 10 11 12 13 14 15 16 17 18 19 20; do
  s=$(date +%s)
  ./check C$i --tier $TIER > /tmp/runall_C$i.log 2>&1
  rc=$?
  e=$(date +%s)
  echo "C$i rc=$rc $((e-s))s $(grep -c '^VIOLATION' /tmp/runall_C$i.log) violations $(grep -c '^KNOWN-FINDING' /tmp/runall_C$i.log) known"
done
