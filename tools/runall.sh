#!/bin/sh
# run every check of a tier; print one line per check (logs in /var/tmp/runall.<pid>/)
TIER=${1:-quick}
cd "$(dirname "$0")/.."
LOGS=/var/tmp/runall.$$
mkdir -p $LOGS
echo "logs in $LOGS seed=${VERIF_SEED:-1} tier=$TIER"
for i in 01 02 03 04 05 06 07 08 09 10 11 12 13 14 15 16 17 18 19 20; do
  s=$(date +%s)
  ./check C$i --tier $TIER > $LOGS/C$i.log 2>&1
  rc=$?
  e=$(date +%s)
  echo "C$i rc=$rc $((e-s))s $(grep -c '^VIOLATION' $LOGS/C$i.log) violations $(grep -c '^KNOWN-FINDING' $LOGS/C$i.log) known"
  [ $rc -ne 0 ] && grep -A3 -E '^VIOLATION|^INCONCLUSIVE' $LOGS/C$i.log | head -12 | cut -c1-300
done
