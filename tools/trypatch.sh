#!/bin/sh
# development tool: apply a patch to a scratch worktree of /repo, run the repository's own tests (guard off),
# then the given checks against that tree.  usage: tools/trypatch.sh <patch.diff> <tier> C01 C07 ...
# Evidence and replays of these runs go to a scratch directory, never to /verif/evidence.
set -u
PATCH=$(readlink -f "$1"); TIER=$2; shift 2
V=$(cd "$(dirname "$0")/.." && pwd)
W=$(mktemp -d /var/tmp/trypatch.XXXXXX)
git -C /repo worktree add -q --detach "$W/wt" HEAD || exit 2
cleanup() { git -C /repo worktree remove --force "$W/wt" 2>/dev/null; rm -rf "$W"; }
trap cleanup EXIT
if ! git -C "$W/wt" apply "$PATCH"; then echo "PATCH DOES NOT APPLY"; exit 2; fi
if [ "${SKIP_BASELINE:-0}" != "1" ]; then
  if VERIF_REPO_ROOT="$W/wt" "$V/baseline_off" > "$W/baseline.log" 2>&1; then echo "baseline: 12 tests pass with the patch"; else echo "baseline: TESTS FAIL with the patch"; tail -5 "$W/baseline.log"; fi
fi
for c in "$@"; do
  s=$(date +%s)
  VERIF_REPO_ROOT="$W/wt" VERIF_OUT_DIR="$W/out" "$V/check" "$c" --tier "$TIER" > "$W/$c.log" 2>&1
  rc=$?
  e=$(date +%s)
  echo "$c rc=$rc $((e-s))s"
  grep -A2 '^VIOLATION' "$W/$c.log" | head -${SHOWLINES:-9} | cut -c1-400
  [ $rc -eq 2 ] && tail -5 "$W/$c.log" | cut -c1-400
done
