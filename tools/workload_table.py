#!/usr/bin/env python3
"""development tool: print a markdown table of what the evidence files of the last run record.  usage: tools/workload_table.py [evidence dir]"""
import json
import os
import sys

d = sys.argv[1] if len(sys.argv) > 1 else os.path.join(os.path.dirname(os.path.dirname(os.path.abspath(__file__))), "evidence")
print("| check | tier | evaluations | distinct non-trivial | wall | a few of the observed counters |")
print("|---|---|---|---|---|---|")
for i in range(1, 21):
    p = os.path.join(d, "C%02d.json" % i)
    if not os.path.exists(p):
        continue
    e = json.load(open(p))
    obs = e["coverage"].get("observed", {})
    keys = [k for k in obs if not k.startswith(("shape:", "variant:", "kind:", "reject-reason", "runs:", "streams:", "attempt:", "inputs:", "lit:", "errtype", "error-type", "nj"))]
    keys = sorted(keys, key=lambda k: -obs[k] if isinstance(obs[k], (int, float)) else 0)[:5]
    print("| C%02d | %s | %s | %s | %.0f s | %s |" % (i, e["tier"], "{:,}".format(e["coverage"]["evaluations"]), "{:,}".format(e["coverage"]["distinct_nontrivial"]),
                                                 e["wall_s"], ", ".join("%s %s" % (k, "{:,}".format(obs[k]) if isinstance(obs[k], int) else obs[k]) for k in keys)))
