#!/bin/sh
# like process_seed.sh for round-2 directories /tmp/seeds/out11-<ID>
ID=$1; SUF=$2; shift 2
V=$(cd "$(dirname "$0")/.." && pwd)
R=$("$V/tools/confirm_seed.sh" /tmp/seeds/out11-$ID 2>&1 | tail -3)
echo "$R" | cut -c1-200
case "$R" in *"NOT CONFIRMED"*) echo "seed $ID not confirmed - not imported"; exit 1;; esac
d="$V/seeded/$ID-$SUF"; mkdir -p "$d"
cp /tmp/seeds/out11-$ID/patch.diff /tmp/seeds/out11-$ID/demo.cpp /tmp/seeds/out11-$ID/build_demo.sh "$d/"
python3 - "$ID" "$d" <<'PY'
import json,sys
pid,d=sys.argv[1],sys.argv[2]
try: m=json.load(open('/tmp/seeds/out11-%s/meta.json'%pid))
except Exception as e: m={"property":pid,"summary":"(meta.json unreadable: %s)"%e}
m['origin']='independent sub-agent (round 11: told the property text, the earlier ideas to avoid, and given a per-property theme (grammar shapes, multi-step VM histories, pass-boundary arrangements, definition arrangements, object reuse, operand edge values))'
m['confirmed_by_me']='tools/confirm_seed.sh: unpatched build + demo exit 0; patched build ok; ctest 12/12 pass; demo exit non-zero'
json.dump(m,open(d+'/meta.json','w'),indent=1)
PY
SKIP_BASELINE=1 SHOWLINES=${SHOWLINES:-4} "$V/tools/trypatch.sh" "$d/patch.diff" quick "$@" 2>&1 | cut -c1-300
