#!/bin/sh
# run the given checks of a tier one after the other; usage: tools/runsome.sh <tier> C01 C02 ...
TIER=$1; shift
cd "$(dirname "$0")/.."
LOGS=/var/tmp/runsome.$$
mkdir -p $LOGS
echo "logs in $LOGS seed=${VERIF_SEED:-1} tier=$TIER"
for c in "$@"; do
  s=$(date +%s)
  ./check $c --tier $TIER > $LOGS/$c.log 2>&1
  rc=$?
  e=$(date +%s)
  echo "$c rc=$rc $((e-s))s $(grep -c '^VIOLATION' $LOGS/$c.log) violations $(grep -c '^KNOWN-FINDING' $LOGS/$c.log) known"
  [ $rc -ne 0 ] && grep -A3 -E '^VIOLATION|^INCONCLUSIVE' $LOGS/$c.log | head -12 | cut -c1-300
  tail -2 $LOGS/$c.log | cut -c1-1500
done
