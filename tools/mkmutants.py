#!/usr/bin/env python3
"""development tool: (re)generate /verif/mutants/*.patch - small realistic semantic mutants of /repo HEAD,
each with the checks expected to catch it (mutants/INDEX.json).  Used by tools/selfcheck.py."""
import difflib
import json
import os
import subprocess

V = os.path.dirname(os.path.dirname(os.path.abspath(__file__)))
M = [
    # name, file, old, new, owning checks
    ("loop_decrement_2", "Compiler/src/gen.cpp", "gs.emit(Instruction::Add(counter, counter, -1));", "gs.emit(Instruction::Add(counter, counter, -2));", ["C01", "C16"]),
    ("loop_counter_aliases_bound", "Compiler/src/gen.cpp", "RegisterIndex counter = gs.getSymbols().fetchVariableRegister(loop_counter);",
     "RegisterIndex counter = gs.getSymbols().fetchVariableRegister(c->left->t == Node::Type::NAME ? std::string(c->left->tok) : loop_counter);", ["C16", "C01"]),
    ("sub_clamp_removed", "VM/src/vm.cpp", "(Word)std::min(std::max(sum, 0LL), (long long)INT_MAX);", "(Word)std::min(sum, (long long)INT_MAX);", ["C20", "C01"]),
    ("add_saturation_removed", "VM/src/vm.cpp", "(Word)std::min(std::max(sum, 0LL), (long long)INT_MAX);", "(Word)std::max(sum, 0LL);", ["C20"]),
    ("label_resolves_past_site", "Compiler/src/gen.cpp", "    if (out.code.back().op == OpCode::POTENTIAL_BREAK) {\n      return this->getNextPos() - 1;\n    }\n    return this->getNextPos();",
     "    return this->getNextPos();", ["C07"]),
    ("frame_one_short", "Compiler/src/gen.cpp", ".stack_size = (int)fgs.register_state.size()};", ".stack_size = std::max(1, (int)fgs.register_state.size() - (fgs.argnum > 2 ? 1 : 0))};", ["C03"]),
    ("missing_semicolon_accepted", "Compiler/src/parse.cpp",
     "        ps.a.errors.push_back(\n            {ps.pos->line, ps.pos->file,\n             \"probable missing ';' before '\" + ps.pos->text + \"'\"});\n        P(ps);",
     "        P(ps);", ["C04"]),
    ("arity_check_removed", "Compiler/src/gen.cpp", "if (p.argnum != (int)arglocs.size()) {", "if (p.argnum < (int)arglocs.size()) {", ["C04", "C03"]),
    ("literal_range_off_by_one", "Compiler/src/gen.cpp", "  long v = std::strtol(c->tok.c_str(), NULL, 10);\n  if (v >= INT_MAX)\n    gs.err(", "  long v = std::strtol(c->tok.c_str(), NULL, 10);\n  if (v > INT_MAX)\n    gs.err(", ["C04", "C20"]),
    ("clear_does_not_restore", "VM/src/vm.cpp", "    for (auto ind : this->code.potential_breaks[bp])\n      this->code.code[ind].op = OpCode::POTENTIAL_BREAK;\n  }\n  this->enabled_breakpoints.clear();",
     "    (void)bp;\n  }\n  this->enabled_breakpoints.clear();", ["C05", "C06", "C17"]),
    ("current_break_ip", "VM/src/vm.cpp", "this->code.line_info.find(this->instruction_pointer - 1);", "this->code.line_info.find(this->instruction_pointer);", ["C06", "C07", "C08"]),
    ("disable_keeps_membership", "VM/src/vm.cpp", "    this->enabled_breakpoints.erase(bp);\n", "", ["C06"]),
    ("enable_first_site_only", "VM/src/vm.cpp", "    for (auto ind : itr->second) this->code.code[ind].op = OpCode::BREAK;", "    this->code.code[itr->second.front()].op = OpCode::BREAK;", ["C05", "C06"]),
    ("reset_keeps_stepping", "VM/src/vm.cpp", "void VM::reset() {\n  this->stepping_mode_enabled = false;", "void VM::reset() {", ["C17"]),
    ("reset_keeps_data", "VM/src/vm.cpp", "  this->data.clear();\n  this->stack.clear();", "  this->stack.clear();", ["C17", "C19"]),
    ("end_mark_dropped", "Compiler/src/parse.cpp", "      end = ps.a.mk(Node::Type::MARK, end->line, end->file, \"\", end, NULL);\n\n      Node *loop =\n          ps.a.mk(Node::Type::LOOP,",
     "      end = NULL;\n\n      Node *loop =\n          ps.a.mk(Node::Type::LOOP,", ["C07"]),
    ("standards_sites_visible", "Compiler/src/gen.cpp", "    if (file == \"__standards__\")\n      return;", "    if (file == \"__standard__\")\n      return;", ["C07", "C08"]),
    ("site_in_one_table_only", "Compiler/src/gen.cpp", "    this->out.line_info[this->getNextPos()] = bp;\n    this->out.potential_breaks[bp].push_back(this->getNextPos());",
     "    this->out.line_info[this->getNextPos()] = bp;\n    if (this->out.potential_breaks[bp].empty() || fs.name.size() < 4)\n      this->out.potential_breaks[bp].push_back(this->getNextPos());", ["C08", "C06"]),
    ("revert_longest_match", "Compiler/src/macro.cpp", "return p1.second.length > p2.second.length;", "if (p1.second.length > p2.second.length)\n                                     return true;\n                                   return p2.second.length > p1.second.length;", ["C09"]),
    ("lowest_priority_first", "Compiler/src/macro.cpp", "for (auto p = prios.rbegin(); p != prios.rend(); p++) {", "for (auto p = prios.begin(); p != prios.end(); p++) {", ["C09", "C01"]),
    ("constraint_check_skipped", "Compiler/src/macro.cpp", "      if (found[0].text != requirement.text) return false;", "      if (found[0].t != requirement.t) return false;", ["C09"]),
    ("insertion_index_shift", "Compiler/src/macro.cpp", "            resp.matched[def.template_token_indices[ind]];", "            resp.matched[def.template_token_indices[ind > 1 ? ind - 1 : ind]];", ["C09", "C01"]),
    ("temp_name_without_pass", "Compiler/src/macro.cpp", "std::to_string(def.replacement[0].line) + \"_(M\" +\n                           std::to_string(pass) + \")\";", "std::to_string(def.replacement[0].line) + \"_(M\" +\n                           std::to_string(pass / 2) + \")\";", ["C10"]),
    ("temp_name_user_writable", "Compiler/src/macro.cpp", "std::string text = cand.text + \":\" + cand.file + \":\" +\n                           std::to_string(def.replacement[0].line) + \"_(M\" +\n                           std::to_string(pass) + \")\";",
     "std::string text = \"tmp\" + cand.text.substr(1) + \"_\" + std::to_string(def.replacement[0].line) + \"_M\" + std::to_string(pass);", ["C10"]),
    ("budget_off_by_one", "Compiler/src/macro.cpp", "for (unsigned int pass = 0; pass < passes; pass++) {", "for (unsigned int pass = 0; pass <= passes; pass++) {", ["C11"]),
    ("budget_error_lost", "Compiler/src/macro.cpp", "  if (changed)\n    res.errors.push_back(ParseError{", "  if (changed && passes >= 1024)\n    res.errors.push_back(ParseError{", ["C11"]),
    ("nonlr_only_reduce_reduce", "Compiler/src/macro.cpp", "    if (!gen_res.empty())\n      res.push_back(ParseError{ParseError::MACRO_COMPILE_NON_LR,",
     "    if (std::any_of(gen_res.begin(), gen_res.end(), [](auto &g) { return g.t == g.REDUCE_REDUCE_ERR; }))\n      res.push_back(ParseError{ParseError::MACRO_COMPILE_NON_LR,", ["C12"]),
    ("nonlr_error_at_body", "Compiler/src/macro.cpp", "md.rule.begin()->file, md.rule.begin()->line});", "md.rule.begin()->file, md.replacement.empty() ? md.rule.begin()->line : md.replacement.begin()->line});", ["C12"]),
    ("first_set_stops_after_two", "Compiler/src/ParserGenerator/grammar.cpp", "          if (!sset.contains(Symbol::Epsilon())) {\n            all_contain_epsilons = false;\n            break;\n          }\n        }\n        if (all_contain_epsilons &&",
     "          if (!sset.contains(Symbol::Epsilon()) || (&symbol - &alternative[0]) >= 2) {\n            all_contain_epsilons = false;\n            break;\n          }\n        }\n        if (all_contain_epsilons &&", ["C13"]),
    ("reduce_pops_values_only", "Compiler/include/ParserGenerator/lrparser.hpp", "        int s_prime = states.back();\n        states.push_back(jump[s_prime][left]);", "        int s_prime = states.back();\n        if (beta > 3) s_prime = states[states.size() - 2];\n        states.push_back(jump[s_prime][left]);", ["C13"]),
    ("include_line_of_includer", "Compiler/src/scan.cpp", "  yyset_lineno(1, s.s);", "  yyset_lineno(key.size() > 6 ? 0 : 1, s.s);", ["C14", "C15"]),
    ("recursive_include_requests_file", "Compiler/src/scan.cpp", "                          \"file '\" + nfn + \"' is included recursively\", s.f,\n                          t.line});", "                          \"file '\" + nfn + \"' is included recursively\", s.f,\n                          t.line, nfn});", ["C15"]),
    ("recursion_test_whole_history", "Compiler/src/scan.cpp", "      lex_stack.push_back(create_scanner(files[nfn], nfn));\n      continue;", "      lex_stack.push_back(create_scanner(files[nfn], nfn));\n      files.erase(nfn == main ? std::string(\"\") : nfn);\n      continue;", ["C15", "C14"]),
    ("static_loop_counter", "Compiler/src/gen.cpp", "  gs.loops++;\n  std::string loop_counter = \"Loop Variable \" + gs.fs.name + \":\" +\n                             std::to_string(gs.fs.line) + \"[\" +\n                             std::to_string(gs.loops) + \"]\";",
     "  static int total_loops = 0;\n  total_loops++;\n  std::string loop_counter = \"Loop Variable \" + gs.fs.name + \":\" +\n                             std::to_string(gs.fs.line) + \"[\" +\n                             std::to_string(total_loops) + \"]\";", ["C18"]),
    ("ret_keeps_frame", "VM/src/vm.cpp", "      this->data.resize(source_off);\n", "      if (source_off > 64) this->data.resize(source_off);\n", ["C19"]),
    ("trailing_comma_guard_removed", "Compiler/src/parse.cpp", "  if (v == NULL) return NULL;  // error already recorded by VALUE\n", "", ["C02", "C04"]),
    ("error_with_empty_file", "Compiler/src/gen.cpp", "      gs.verr(CodegenResult::Error::Type::PARSE_ERROR, e.msg, e.file, e.line);", "      gs.verr(CodegenResult::Error::Type::PARSE_ERROR, e.msg, e.line > 40 ? std::string(\"\") : e.file, e.line);", ["C02"]),
    ("keyword_spelling_dropped", "Compiler/src/lexer.l", "stop (STOP|Stop|stop)", "stop (STOP|stop)", ["C14", "C04"]),
]


def main():
    out = os.path.join(V, "mutants")
    os.makedirs(out, exist_ok=True)
    index = []
    for name, path, old, new, checks in M:
        src = subprocess.run(["git", "-C", "/repo", "show", "HEAD:" + path], capture_output=True, text=True).stdout
        if src.count(old) != 1:
            print("SKIP %s: pattern occurs %d times in %s" % (name, src.count(old), path))
            continue
        mod = src.replace(old, new)
        diff = "".join(difflib.unified_diff(src.splitlines(True), mod.splitlines(True), "a/" + path, "b/" + path))
        with open(os.path.join(out, name + ".patch"), "w") as f:
            f.write(diff)
        index.append({"name": name, "file": path, "expected_checks": checks})
    json.dump(index, open(os.path.join(out, "INDEX.json"), "w"), indent=1)
    print("wrote %d mutants" % len(index))


if __name__ == "__main__":
    main()
