#!/usr/bin/env python3
"""development tool: re-run the owning quick check against every kept seeded change on the CURRENT /repo HEAD.
Writes seeded/RESULTS.json: {seed: {applies, check, rc, seconds, signature}}.  usage: tools/reseed_all.py [substring ...]"""
import json
import os
import re
import subprocess
import sys
import tempfile
import time

V = os.path.dirname(os.path.dirname(os.path.abspath(__file__)))


def run(cmd, env=None, timeout=4000):
    e = dict(os.environ)
    if env:
        e.update(env)
    p = subprocess.run(cmd, stdout=subprocess.PIPE, stderr=subprocess.STDOUT, env=e, timeout=timeout)
    return p.returncode, p.stdout.decode("latin-1")


def main():
    sel = sys.argv[1:]
    resp = os.path.join(V, "seeded", "RESULTS.json")
    results = json.load(open(resp)) if os.path.exists(resp) else {}
    seeds = sorted(d for d in os.listdir(os.path.join(V, "seeded")) if os.path.isdir(os.path.join(V, "seeded", d)))
    for sd in seeds:
        if sel and not any(s in sd for s in sel):
            continue
        meta = json.load(open(os.path.join(V, "seeded", sd, "meta.json")))
        owning = sd.split("-")[0]
        w = tempfile.mkdtemp(prefix="reseed.", dir="/var/tmp")
        wt = os.path.join(w, "wt")
        try:
            run(["git", "-C", "/repo", "worktree", "add", "-q", "--detach", wt, "HEAD"])
            rc, out = run(["git", "-C", wt, "apply", os.path.join(V, "seeded", sd, "patch.diff")])
            if rc != 0:
                results[sd] = {"applies": False, "note": out[-300:]}
                print("%-8s patch does not apply to HEAD" % sd, flush=True)
                continue
            t0 = time.time()
            rc, out = run([os.path.join(V, "check"), owning, "--tier", "quick"], {"VERIF_REPO_ROOT": wt, "VERIF_OUT_DIR": os.path.join(w, "out")})
            sig = re.findall(r"signature: (.*)", out)
            results[sd] = {"applies": True, "check": owning, "rc": rc, "seconds": round(time.time() - t0), "signature": sig[:2]}
            print("%-8s %s rc=%d %ds %s" % (sd, owning, rc, time.time() - t0, sig[:1]), flush=True)
        finally:
            run(["git", "-C", "/repo", "worktree", "remove", "--force", wt])
            run(["rm", "-rf", w])
            json.dump(results, open(resp, "w"), indent=1, sort_keys=True)


if __name__ == "__main__":
    main()
