// Concurrency / determinism driver (C18).  Built per flavour (tsan, asan, plain).
// usage: mt_drv <casefile> <threads> <calls-per-thread> <seed> <jitter_us> <budget>
//   threads == 0: sequential mode, every case once in file order on the main thread.
// Every call = Theo::compile(files, main) [+ VM run up to <budget> instructions when accepted];
// output: one JSON line {"calls":[[thread,case,stage,start_ns,end_ns,"digest"],...]}
// stage 0 = compile, 1 = execute.  The digest covers the full observable result.
#include <unistd.h>

#include <atomic>
#include <chrono>
#include <cstdio>
#include <cstring>
#include <fstream>
#include <iostream>
#include <map>
#include <mutex>
#include <random>
#include <sstream>
#include <string>
#include <thread>
#include <vector>

#include "Compiler/include/compiler.hpp"
#include "VM/include/vm.hpp"

using namespace Theo;

static std::string unhex(const std::string &h) {
  std::string r;
  auto v = [](char c) { return c <= '9' ? c - '0' : (c | 32) - 'a' + 10; };
  for (size_t i = 0; i + 1 < h.size(); i += 2) r += (char)(v(h[i]) * 16 + v(h[i + 1]));
  return r;
}

struct Input {
  std::string id, main;
  std::map<FileName, FileContent> files;
};

static bool read_case(std::istream &in, Input &c) {
  std::string line;
  c = Input();
  bool started = false;
  while (std::getline(in, line)) {
    if (line.empty()) continue;
    std::istringstream is(line);
    std::string k;
    is >> k;
    if (k == "CASE") {
      is >> c.id;
      started = true;
    } else if (k == "MAIN") {
      std::string h;
      is >> h;
      c.main = unhex(h);
    } else if (k == "FILE") {
      std::string h;
      size_t n;
      is >> h >> n;
      if (h == "-") h = "";
      std::string body(n, '\0');
      in.read(&body[0], n);
      in.get();
      c.files[unhex(h)] = body;
    } else if (k == "END")
      return started;
  }
  return false;
}

struct H {
  unsigned long long h = 1469598103934665603ULL;
  void i(long long x) {
    h ^= (unsigned long long)x;
    h *= 1099511628211ULL;
  }
  void s(const std::string &x) {
    for (unsigned char c : x) i(c);
    i(0x1ff);
  }
};

static void hash_instr(H &h, const Instruction &i) {
  h.i((int)i.op);
  switch (i.op) {
    case OpCode::ADD_CONST:
      h.i(i.parameters.add.target), h.i(i.parameters.add.source), h.i(i.parameters.add.constant);
      break;
    case OpCode::JMP:
      h.i(i.parameters.jmp.offset);
      break;
    case OpCode::JMPC:
      h.i(i.parameters.jmpc.offset), h.i(i.parameters.jmpc.source);
      break;
    case OpCode::PREPARE_EXEC:
      h.i(i.parameters.prepare.count), h.i(i.parameters.prepare.index), h.i(i.parameters.prepare.target);
      break;
    case OpCode::ARG:
      h.i(i.parameters.arg.target), h.i(i.parameters.arg.source);
      break;
    case OpCode::EXEC:
      h.i(i.parameters.exec.entry);
      break;
    case OpCode::RET:
      h.i(i.parameters.ret.source);
      break;
    case OpCode::CONST:
      h.i(i.parameters.constant.target), h.i(i.parameters.constant.constant);
      break;
    case OpCode::TEST:
      h.i(i.parameters.test.target), h.i(i.parameters.test.op1), h.i(i.parameters.test.op2);
      break;
    default:
      break;
  }
}

static unsigned long long digest_compile(const CodegenResult &cr) {
  H h;
  h.i(cr.generated_correctly);
  h.i(cr.errors.size());
  for (auto &e : cr.errors) {
    h.i((int)e.t);
    h.s(e.message);
    h.s(e.file);
    h.i(e.line);
  }
  h.i(cr.file_requests.size());
  for (auto &r : cr.file_requests) h.s(r);
  h.i(cr.code.code.size());
  for (auto &i : cr.code.code) hash_instr(h, i);
  h.i(cr.code.stack_maps.size());
  for (auto &m : cr.code.stack_maps) {
    h.s(m.func_name);
    for (auto &e : m.map) {
      h.i(e.first);
      h.s(e.second);
    }
  }
  for (auto &p : cr.code.potential_breaks) {
    h.s(p.first.file);
    h.i(p.first.line);
    for (auto i : p.second) h.i(i);
    h.i(-7);
  }
  for (auto &p : cr.code.line_info) {
    h.i(p.first);
    h.s(p.second.file);
    h.i(p.second.line);
  }
  return h.h;
}

static unsigned long long digest_run(const Program &p, long budget) {
  VM vm(p);
  long n = 0;
  while (n < budget && !vm.isDone()) {
    vm.executeSingle();
    n++;
  }
  H h;
  h.i(n);
  h.i(vm.isDone());
  for (auto &a : vm.getActivations()) {
    h.i(0xabc);
    for (auto &v : a.getActivationVariables()) {
      h.s(v.first);
      h.i(v.second);
    }
  }
  BreakPoint bp = vm.getCurrentBreak();
  h.s(bp.file);
  h.i(bp.line);
  return h.h;
}

static unsigned long long digest_vm(VM &vm, long n) {
  H h;
  h.i(n);
  h.i(vm.isDone());
  for (auto &a : vm.getActivations()) {
    h.i(0xabc);
    for (auto &v : a.getActivationVariables()) {
      h.s(v.first);
      h.i(v.second);
    }
  }
  return h.h;
}

// distinct VM instances never influence one another: two machines on the same program, stepped alternately in one
// thread, the second one driven like a debugger (stepping on, every breakpoint enabled, a reset half way); the first
// one must end exactly like a machine that ran alone.  returns 1 if it does.
static int interleaved_ok(const Program &p, long budget) {
  VM solo(p);
  long n = 0;
  while (n < budget && !solo.isDone()) {
    solo.executeSingle();
    n++;
  }
  unsigned long long want = digest_vm(solo, n);
  VM a(p), b(p);
  Program copy = p;
  b.setSteppingMode(true);
  for (auto &bp : copy.getAvailableBreakpoints()) b.setBreakPoint(bp.file, bp.line, true);
  long na = 0, nb = 0;
  while (na < budget && !a.isDone()) {
    a.executeSingle();
    na++;
    if (!b.isDone()) {
      b.executeSingle();
      nb++;
    }
    if (nb == n / 2 + 1) b.reset();
  }
  if (digest_vm(a, na) != want) return 0;
  // a machine obtained by copying (or moving) a paused machine is a distinct instance as well: run the original half
  // way, copy it, let the original go away, move the copy through a growing vector, run it to the end
  std::vector<VM> pool;
  {
    VM orig(p);
    long k = 0;
    while (k < n / 2 && !orig.isDone()) {
      orig.executeSingle();
      k++;
    }
    VM snap = orig;          // copy of the paused machine
    pool.push_back(snap);
    pool.push_back(orig);    // a second copy
    while (k < budget && !orig.isDone()) {   // the original runs on and ends; its copies must not notice
      orig.executeSingle();
      k++;
    }
    if (digest_vm(orig, k) != want) return 0;
  }
  {
    // ... and so is a machine that RECEIVES a paused machine by move assignment, copy assignment, swap, or by the
    // element shifts of vector::erase, while the object it came from is reused for a fresh session or goes away
    VM session(p), other(p);
    long k = 0;
    while (k < n / 2 && !session.isDone()) {
      session.executeSingle();
      k++;
    }
    VM slot(p), slot2(p);
    slot2 = session;               // copy assignment
    slot = std::move(session);     // move assignment
    session = VM(p);               // the old object starts a fresh session ...
    session.executeSingle();
    std::swap(slot2, other);       // ... and the copy changes places with a fresh machine
    std::vector<VM> shelf;
    shelf.push_back(VM(p));
    shelf.push_back(slot);
    shelf.push_back(other);
    shelf.erase(shelf.begin());    // the two paused machines are move-assigned one place down
    slot.reset();                  // what was copied from must not matter any more
    VM paused(p);
    for (long j = 0; j < k; j++) paused.executeSingle();
    unsigned long long want_paused = digest_vm(paused, 0);
    for (auto &c : shelf) {
      long kk = k;
      if (digest_vm(c, 0) != want_paused) return 0;   // what the paused machine shows before it runs on
      while (kk < budget && !c.isDone()) {
        c.executeSingle();
        kk++;
      }
      if (digest_vm(c, kk) != want) return 0;
    }
  }
  for (int i = 0; i < 6; i++) pool.push_back(VM(p));   // reallocation moves the machines
  for (int which = 0; which < 2; which++) {
    VM &c = pool[which];
    long k = n / 2 < n ? n / 2 : n;
    if (solo.isDone() == false && n >= budget) k = n / 2;
    while (k < budget && !c.isDone()) {
      c.executeSingle();
      k++;
    }
    if (digest_vm(c, k) != want) return 0;
  }
  return 1;
}

struct Rec {
  int thread, input, stage;
  long long start, end;
  unsigned long long digest;
  int ok = 1;
};

static long long now_ns() {
  return std::chrono::duration_cast<std::chrono::nanoseconds>(
             std::chrono::steady_clock::now().time_since_epoch())
      .count();
}

int main(int argc, char **argv) {
  if (argc < 7) {
    fprintf(stderr, "usage: mt_drv <casefile> <threads> <calls> <seed> <jitter_us> <budget>\n");
    return 2;
  }
  std::ifstream in(argv[1], std::ios::binary);
  int threads = atoi(argv[2]);
  long calls = atol(argv[3]);
  unsigned long seed = strtoul(argv[4], nullptr, 10);
  int jitter = atoi(argv[5]);
  long budget = atol(argv[6]);
  std::vector<Input> inputs;
  Input c;
  while (read_case(in, c)) inputs.push_back(c);
  if (inputs.empty()) {
    fprintf(stderr, "no inputs\n");
    return 2;
  }
  std::vector<std::vector<Rec>> recs(threads ? threads : 1);
  auto one = [&](int t, int k, std::vector<Rec> &out) {
    const Input &inp = inputs[k];
    long long s = now_ns();
    CodegenResult cr = compile(inp.files, inp.main);
    unsigned long long d = digest_compile(cr);
    long long e = now_ns();
    out.push_back({t, k, 0, s, e, d});
    if (cr.generated_correctly) {
      s = now_ns();
      d = digest_run(cr.code, budget);
      int ok = interleaved_ok(cr.code, budget);
      e = now_ns();
      out.push_back({t, k, 1, s, e, d, ok});
    }
  };
  if (threads == 0) {
    for (long r = 0; r < calls; r++)
      for (size_t k = 0; k < inputs.size(); k++) one(0, (int)k, recs[0]);
  } else {
    std::atomic<int> ready{0};
    std::vector<std::thread> ts;
    for (int t = 0; t < threads; t++)
      ts.emplace_back([&, t]() {
        std::mt19937_64 rng(seed * 1000003ULL + t);
        ready++;
        while (ready.load() < threads) std::this_thread::yield();  // start together
        for (long r = 0; r < calls; r++) {
          int k = (int)(rng() % inputs.size());
          one(t, k, recs[t]);
          if (jitter > 0) usleep(rng() % (jitter + 1));
        }
      });
    for (auto &t : ts) t.join();
  }
  std::string o = "{\"calls\":[";
  bool f = true;
  for (auto &v : recs)
    for (auto &r : v) {
      char b[160];
      snprintf(b, sizeof b, "%s[%d,%d,%d,%lld,%lld,\"%llu\",%d]", f ? "" : ",", r.thread, r.input, r.stage,
               r.start, r.end, r.digest, r.ok);
      f = false;
      o += b;
    }
  o += "],\"inputs\":[";
  for (size_t k = 0; k < inputs.size(); k++) {
    if (k) o += ',';
    o += "\"" + inputs[k].id + "\"";
  }
  o += "]}\n";
  fwrite(o.data(), 1, o.size(), stdout);
  return 0;
}
