// Observation driver for the libtheo verification harness (DESIGN.md 3.3).
// Reads a batch of cases, executes the real library code, prints one JSON line of observations
// per case.  Contains no verdict logic except the per-instruction shadow monitors of mode `run`
// (too many events to log).
//
// usage: theo_drv <casefile> [skip]
// case file:  CASE <id>\n MODE <m>\n MAIN <hex>\n FILE <hexname> <nbytes>\n<bytes>\n OPT <k> <v...>\n END\n
#include <signal.h>
#include <sys/resource.h>
#include <sys/time.h>
#include <time.h>
#include <unistd.h>

#include <climits>
#include <cstdio>
#include <cstring>
#include <fstream>
#include <functional>
#include <iostream>
#include <map>
#include <memory>
#include <set>
#include <sstream>
#include <stdexcept>
#include <string>
#include <vector>

#include "Compiler/include/ParserGenerator/lrparser.hpp"
#include "Compiler/include/compiler.hpp"
#include "Compiler/include/macro.hpp"
#include "Compiler/include/parse.hpp"
#include "Compiler/include/gen.hpp"
#include "Compiler/include/scan.hpp"
#include "VM/include/vm.hpp"

using namespace Theo;

extern "C" size_t __sanitizer_get_current_allocated_bytes() __attribute__((weak));
extern "C" int __lsan_do_recoverable_leak_check() __attribute__((weak));

// ---------------------------------------------------------------- helpers
static std::string unhex(const std::string &h) {
  std::string r;
  auto v = [](char c) { return c <= '9' ? c - '0' : (c | 32) - 'a' + 10; };
  for (size_t i = 0; i + 1 < h.size(); i += 2) r += (char)(v(h[i]) * 16 + v(h[i + 1]));
  return r;
}

static std::string OUT;  // pre-reserved output buffer (so that dumping allocates nothing)

static void jstr(const std::string &s) {
  static const char *hx = "0123456789abcdef";
  OUT += '"';
  for (unsigned char c : s) {
    if (c == '"' || c == '\\') {
      OUT += '\\';
      OUT += (char)c;
    } else if (c < 0x20 || c >= 0x7f) {
      OUT += "\\u00";
      OUT += hx[c >> 4];
      OUT += hx[c & 15];
    } else
      OUT += (char)c;
  }
  OUT += '"';
}
static void jint(long long v) {
  char b[32];
  int n = snprintf(b, sizeof b, "%lld", v);
  OUT.append(b, n);
}
static void jkey(const char *k) {
  OUT += '"';
  OUT += k;
  OUT += "\":";
}

struct Case {
  std::string id, mode, main;
  std::map<FileName, FileContent> files;
  std::map<std::string, std::vector<std::string>> opts;
  long opt(const std::string &k, long dflt) const {
    auto it = opts.find(k);
    if (it == opts.end() || it->second.empty()) return dflt;
    return std::stol(it->second.back());
  }
  bool has(const std::string &k) const { return opts.count(k) > 0; }
};

static bool read_case(std::istream &in, Case &c) {
  std::string line;
  c = Case();
  bool started = false;
  while (std::getline(in, line)) {
    if (line.empty()) continue;
    std::istringstream is(line);
    std::string k;
    is >> k;
    if (k == "CASE") {
      is >> c.id;
      started = true;
    } else if (k == "MODE")
      is >> c.mode;
    else if (k == "MAIN") {
      std::string h;
      is >> h;
      c.main = unhex(h);
    } else if (k == "FILE") {
      std::string h;
      size_t n;
      is >> h >> n;
      if (h == "-") h = "";
      std::string body(n, '\0');
      in.read(&body[0], n);
      in.get();  // trailing newline
      c.files[unhex(h)] = body;
    } else if (k == "OPT") {
      std::string key;
      is >> key;
      std::string rest;
      std::getline(is, rest);
      if (!rest.empty() && rest[0] == ' ') rest.erase(0, 1);
      c.opts[key].push_back(rest);
    } else if (k == "END") {
      return started;
    }
  }
  return false;
}

// ---------------------------------------------------------------- watchdog / progress
static volatile long g_progress_rewrites = 0;
static volatile long g_progress_steps = 0;
static char g_case_id[128];

static volatile long g_abandon_secs = 0;  // KF1: give up on a case that is still rewriting after this much CPU
static volatile long g_case_cpu = 600;
static volatile int g_timer_phase = 0;

static void arm_timer_raw(long seconds) {
  struct itimerval tv;
  memset(&tv, 0, sizeof tv);
  tv.it_value.tv_sec = seconds;
  setitimer(ITIMER_PROF, &tv, nullptr);
}

static void on_cpu_timeout(int) {
  char buf[256];
  if (g_timer_phase == 0 && g_abandon_secs > 0) {
    if (g_progress_rewrites > 0) {
      // macro expansion has been rewriting and a single pass now runs on and on (KF1): the hook cannot
      // throw from here, so report and leave the process; the orchestrator restarts after this case
      int n = snprintf(buf, sizeof buf, "\nABANDONED %s rewrites=%ld\n", g_case_id, (long)g_progress_rewrites);
      if (write(1, buf, n) < 0) {
      }
      _exit(98);
    }
    g_timer_phase = 1;
    long rest = g_case_cpu - g_abandon_secs;
    arm_timer_raw(rest > 1 ? rest : 1);
    return;
  }
  int n = snprintf(buf, sizeof buf, "\nTIMEOUT %s rewrites=%ld steps=%ld\n", g_case_id,
                   (long)g_progress_rewrites, (long)g_progress_steps);
  if (write(1, buf, n) < 0) {
  }
  _exit(99);
}

static void arm_case_timer(long seconds, long abandon = 0) {
  g_timer_phase = 0;
  g_abandon_secs = (abandon > 0 && abandon < seconds) ? abandon : 0;
  g_case_cpu = seconds;
  arm_timer_raw(seconds == 0 ? 0 : (g_abandon_secs > 0 ? g_abandon_secs : seconds));
}

static double thread_cpu() {
  struct timespec ts;
  clock_gettime(CLOCK_THREAD_CPUTIME_ID, &ts);
  return ts.tv_sec + ts.tv_nsec * 1e-9;
}

struct Abandon : std::exception {};

// ---------------------------------------------------------------- dumps
static void dump_token(const Token &t) {
  OUT += '[';
  jint((int)t.t);
  OUT += ',';
  jstr(t.text);
  OUT += ',';
  jstr(t.file);
  OUT += ',';
  jint(t.line);
  OUT += ']';
}
static void dump_tokens(const std::vector<Token> &v) {
  OUT += '[';
  bool f = true;
  for (auto &t : v) {
    if (!f) OUT += ',';
    f = false;
    dump_token(t);
  }
  OUT += ']';
}
static void dump_perrs(const std::vector<ParseError> &v) {
  OUT += '[';
  bool f = true;
  for (auto &e : v) {
    if (!f) OUT += ',';
    f = false;
    OUT += '[';
    jint((int)e.t);
    OUT += ',';
    jstr(e.msg);
    OUT += ',';
    jstr(e.file);
    OUT += ',';
    jint(e.line);
    OUT += ',';
    jstr(e.file_request);
    OUT += ']';
  }
  OUT += ']';
}

static void dump_instr(const Instruction &i) {
  OUT += '[';
  jint((int)i.op);
  auto p = [&](int v) {
    OUT += ',';
    jint(v);
  };
  switch (i.op) {
    case OpCode::POTENTIAL_BREAK:
    case OpCode::BREAK:
    case OpCode::HALT:
      break;
    case OpCode::ADD_CONST:
      p(i.parameters.add.target), p(i.parameters.add.source), p(i.parameters.add.constant);
      break;
    case OpCode::JMP:
      p(i.parameters.jmp.offset);
      break;
    case OpCode::JMPC:
      p(i.parameters.jmpc.offset), p(i.parameters.jmpc.source);
      break;
    case OpCode::PREPARE_EXEC:
      p(i.parameters.prepare.count), p(i.parameters.prepare.index), p(i.parameters.prepare.target);
      break;
    case OpCode::ARG:
      p(i.parameters.arg.target), p(i.parameters.arg.source);
      break;
    case OpCode::EXEC:
      p(i.parameters.exec.entry);
      break;
    case OpCode::RET:
      p(i.parameters.ret.source);
      break;
    case OpCode::CONST:
      p(i.parameters.constant.target), p(i.parameters.constant.constant);
      break;
    case OpCode::TEST:
      p(i.parameters.test.target), p(i.parameters.test.op1), p(i.parameters.test.op2);
      break;
    default:
      break;
  }
  OUT += ']';
}

static void dump_program(const Program &pr) {
  jkey("code");
  OUT += '[';
  for (size_t i = 0; i < pr.code.size(); i++) {
    if (i) OUT += ',';
    dump_instr(pr.code[i]);
  }
  OUT += "],";
  jkey("maps");
  OUT += '[';
  for (size_t i = 0; i < pr.stack_maps.size(); i++) {
    if (i) OUT += ',';
    OUT += '[';
    jstr(pr.stack_maps[i].func_name);
    OUT += ",[";
    bool f = true;
    for (auto &e : pr.stack_maps[i].map) {
      if (!f) OUT += ',';
      f = false;
      OUT += '[';
      jint(e.first);
      OUT += ',';
      jstr(e.second);
      OUT += ']';
    }
    OUT += "]]";
  }
  OUT += "],";
  jkey("pb");
  OUT += '[';
  {
    bool f = true;
    for (auto &p : pr.potential_breaks) {
      if (!f) OUT += ',';
      f = false;
      OUT += '[';
      jstr(p.first.file);
      OUT += ',';
      jint(p.first.line);
      OUT += ",[";
      bool g = true;
      for (auto i : p.second) {
        if (!g) OUT += ',';
        g = false;
        jint(i);
      }
      OUT += "]]";
    }
  }
  OUT += "],";
  jkey("li");
  OUT += '[';
  {
    bool f = true;
    for (auto &p : pr.line_info) {
      if (!f) OUT += ',';
      f = false;
      OUT += '[';
      jint(p.first);
      OUT += ',';
      jstr(p.second.file);
      OUT += ',';
      jint(p.second.line);
      OUT += ']';
    }
  }
  OUT += "]";
}

static void dump_compile(const CodegenResult &cr, bool with_program) {
  jkey("ok");
  OUT += cr.generated_correctly ? "true" : "false";
  OUT += ',';
  jkey("errors");
  OUT += '[';
  for (size_t i = 0; i < cr.errors.size(); i++) {
    if (i) OUT += ',';
    OUT += '[';
    jint((int)cr.errors[i].t);
    OUT += ',';
    jstr(cr.errors[i].message);
    OUT += ',';
    jstr(cr.errors[i].file);
    OUT += ',';
    jint(cr.errors[i].line);
    OUT += ']';
  }
  OUT += "],";
  jkey("requests");
  OUT += '[';
  for (size_t i = 0; i < cr.file_requests.size(); i++) {
    if (i) OUT += ',';
    jstr(cr.file_requests[i]);
  }
  OUT += "]";
  if (with_program) {
    OUT += ',';
    dump_program(cr.code);
  }
}

static void dump_vars(VM::Activation &a) {
  OUT += '{';
  bool f = true;
  for (auto &p : a.getActivationVariables()) {
    if (!f) OUT += ',';
    f = false;
    jstr(p.first);
    OUT += ':';
    jint(p.second);
  }
  OUT += '}';
}

static void dump_acts(VM &vm) {
  OUT += '[';
  auto &acts = vm.getActivations();
  for (size_t k = 0; k < acts.size(); k++) {
    if (k) OUT += ',';
    OUT += '[';
    jint(vm.verifActivationStackMap(k));
    OUT += ',';
    dump_vars(acts[k]);
    OUT += ']';
  }
  OUT += ']';
}

// install the macro hook: counts rewrites, optionally abandons (KF1) after cpu seconds
struct HookGuard {
  HookGuard(std::function<void(const VerifRewriteEvent &)> f) { verif_rewrite_hook = f; }
  ~HookGuard() { verif_rewrite_hook = nullptr; }
};

// ---------------------------------------------------------------- modes
static void mode_scan(const Case &c) {
  ScanResult sr = scan(c.files, c.main);
  jkey("toks");
  dump_tokens(sr.toks);
  OUT += ',';
  jkey("errors");
  dump_perrs(sr.errors);
}

static int find_def(const std::vector<MacroDefinition> &defs, const MacroDefinition *d) {
  for (size_t i = 0; i < defs.size(); i++) {
    const MacroDefinition &m = defs[i];
    if (m.priority != d->priority || m.rule.size() != d->rule.size() ||
        m.replacement.size() != d->replacement.size())
      continue;
    bool eq = true;
    for (size_t k = 0; k < m.rule.size() && eq; k++)
      eq = m.rule[k].t == d->rule[k].t && m.rule[k].text == d->rule[k].text &&
           m.rule[k].file == d->rule[k].file && m.rule[k].line == d->rule[k].line;
    for (size_t k = 0; k < m.replacement.size() && eq; k++)
      eq = m.replacement[k].text == d->replacement[k].text &&
           m.replacement[k].line == d->replacement[k].line;
    if (eq) return (int)i;
  }
  return -1;
}

static void mode_macro(const Case &c) {
  long passes = c.opt("passes", 1024);
  double abandon = (double)c.opt("abandon", 0);
  bool streams = c.opt("streams", 0) != 0;
  long maxevents = c.opt("maxevents", 100000);
  ScanResult sr = scan(c.files, c.main);
  MacroExtractionResult mer = extract_macros(sr.toks);
  jkey("scan_errors");
  dump_perrs(sr.errors);
  OUT += ',';
  jkey("ext_errors");
  dump_perrs(mer.errors);
  OUT += ',';
  jkey("ext_tokens");
  dump_tokens(mer.tokens);
  OUT += ',';
  jkey("macros");
  OUT += '[';
  for (size_t i = 0; i < mer.macros.size(); i++) {
    if (i) OUT += ',';
    OUT += '[';
    jint(mer.macros[i].priority);
    OUT += ',';
    dump_tokens(mer.macros[i].rule);
    OUT += ',';
    dump_tokens(mer.macros[i].replacement);
    OUT += ']';
  }
  OUT += "],";
  std::string ev;  // events are buffered separately (the hook runs inside apply_macros)
  ev.reserve(1 << 20);
  long nev = 0;
  double t0 = thread_cpu();
  bool abandoned = false;
  MacroApplicationResult mar;
  {
    std::string saved;
    HookGuard hg([&](const VerifRewriteEvent &e) {
      nev++;
      g_progress_rewrites++;
      if (nev <= maxevents) {
        saved.swap(OUT);
        if (nev > 1) OUT += ',';
        OUT += '[';
        jint(e.pass);
        OUT += ',';
        jint(find_def(mer.macros, e.definition));
        OUT += ',';
        jint(e.location);
        OUT += ',';
        jint(e.length);
        OUT += ',';
        jint((long long)e.size_after);
        if (streams) {
          OUT += ',';
          dump_tokens(*e.stream_after);
        }
        OUT += ']';
        ev += OUT;
        OUT.clear();
        saved.swap(OUT);
      }
      if (abandon > 0 && thread_cpu() - t0 > abandon) throw Abandon();
    });
    try {
      mar = apply_macros(mer.tokens, mer.macros, (unsigned)passes);
    } catch (const Abandon &) {
      abandoned = true;
    }
  }
  jkey("events");
  OUT += '[';
  OUT += ev;
  OUT += "],";
  jkey("nevents");
  jint(nev);
  OUT += ',';
  jkey("abandoned");
  OUT += abandoned ? "true" : "false";
  OUT += ',';
  jkey("app_errors");
  dump_perrs(mar.errors);
  OUT += ',';
  jkey("out");
  dump_tokens(mar.transformed_sequence);
  if (c.opt("reapply", 0) != 0 && !abandoned) {
    // the same definitions object and the same tokens handed to apply_macros again (extract once, expand several times):
    // the second expansion must be the first one again
    MacroApplicationResult again = apply_macros(mer.tokens, mer.macros, (unsigned)passes);
    std::string a, b, saved;
    saved.swap(OUT);
    dump_tokens(mar.transformed_sequence);
    OUT += '|';
    dump_perrs(mar.errors);
    a.swap(OUT);
    dump_tokens(again.transformed_sequence);
    OUT += '|';
    dump_perrs(again.errors);
    b.swap(OUT);
    saved.swap(OUT);
    OUT += ',';
    jkey("reapply_same");
    OUT += a == b ? "true" : "false";
  }
}

// compile with KF1 abandonment + rewrite counting; returns false if abandoned
static void maybe_disassemble(const Case &c, CodegenResult &cr) {
  // OPT disasm 1: call the public, supposedly read-only Program::disassemble() before the program is inspected / run
  if (c.opt("disasm", 0) && cr.generated_correctly) {
    std::ostringstream sink;
    cr.code.disassemble(sink);
  }
}

static bool guarded_compile(const Case &c, CodegenResult &cr, long &rewrites) {
  double abandon = (double)c.opt("abandon", 0);
  double t0 = thread_cpu();
  rewrites = 0;
  HookGuard hg([&](const VerifRewriteEvent &) {
    rewrites++;
    g_progress_rewrites++;
    if (abandon > 0 && (rewrites & 3) == 0 && thread_cpu() - t0 > abandon) throw Abandon();
  });
  try {
    cr = compile(c.files, c.main);
  } catch (const Abandon &) {
    return false;
  }
  maybe_disassemble(c, cr);
  return true;
}

static void mode_compile(const Case &c) {
  bool heap = c.opt("heap", 0) != 0 && __sanitizer_get_current_allocated_bytes;
  bool with_program = c.opt("program", 1) != 0;
  size_t cap = OUT.capacity();
  size_t before = heap ? __sanitizer_get_current_allocated_bytes() : 0;
  long rewrites = 0;
  bool done;
  {
    CodegenResult cr;
    done = guarded_compile(c, cr, rewrites);
    if (done) dump_compile(cr, with_program);
  }
  size_t after = heap ? __sanitizer_get_current_allocated_bytes() : 0;
  long long first_delta = (long long)after - (long long)before;
  if (heap && done && after != before) {
    // a one-time lazy initialisation inside libstdc++/libc also shows as a delta: only a delta that
    // repeats on a second identical call is a per-call leak
    std::string saved;
    saved.swap(OUT);
    size_t b2 = __sanitizer_get_current_allocated_bytes();
    {
      CodegenResult cr2;
      long rw2 = 0;
      guarded_compile(c, cr2, rw2);
    }
    size_t a2 = __sanitizer_get_current_allocated_bytes();
    saved.swap(OUT);
    before = b2;
    after = a2;
  }
  if (!done) {
    jkey("abandoned");
    OUT += "true";
  }
  OUT += ',';
  jkey("rewrites");
  jint(rewrites);
  if (done && c.opt("stages", 0) != 0 && rewrites < 1000) {
    // the same compilation through the lower-level entry points: parse once, generate code TWICE from the same tree;
    // both results and compile()'s own must be identical (a generator must not leave traces in the tree it reads)
    std::string d0, d1, d2;
    {
      CodegenResult cr0 = compile(c.files, c.main);
      std::string saved;
      saved.swap(OUT);
      dump_compile(cr0, true);
      d0.swap(OUT);
      saved.swap(OUT);
    }
    ParseResult pr = parse(c.files, c.main);
    for (int k = 0; k < 2; k++) {
      CodegenResult g = gen(pr.a);
      g.file_requests = pr.missing_files;
      std::string saved;
      saved.swap(OUT);
      dump_compile(g, true);
      (k ? d2 : d1).swap(OUT);
      saved.swap(OUT);
    }
    pr.a.clear();
    OUT += ',';
    jkey("stages");
    OUT += '[';
    OUT += d1 == d2 ? "1" : "0";
    OUT += ',';
    OUT += d0 == d1 ? "1" : "0";
    OUT += ']';
  }
  if (heap && done && OUT.capacity() == cap) {
    OUT += ',';
    jkey("heap");
    jint((long long)after - (long long)before);
    OUT += ',';
    jkey("heap_first");
    jint(first_delta);
    if (after != before && __lsan_do_recoverable_leak_check) {
      OUT += ',';
      jkey("lsan");
      jint(__lsan_do_recoverable_leak_check());
    }
  }
}

// ---- shadow monitors over hooked VM state (C03 dynamic, C19, C20, C16 depth)
struct Monitor {
  std::string first;  // first violation
  long boundaries = 0, rets = 0, calls = 0;
  long maxdepth = 0, maxdata = 0, maxlive = 0;
  long ophist[12] = {0};
  void fail(const std::string &m) {
    if (first.empty()) first = m;
  }
  // structural invariant at an instruction boundary
  void boundary(const VM &vm) {
    boundaries++;
    size_t n = vm.verifActivationCount();
    long live = 0;
    for (size_t k = 0; k < n; k++) {
      if (vm.verifActivationBase(k) != live)
        fail("C19 frame " + std::to_string(k) + " base " + std::to_string(vm.verifActivationBase(k)) +
             " != " + std::to_string(live));
      if (vm.verifActivationSize(k) < 0) fail("C19 negative frame size");
      live += vm.verifActivationSize(k);
    }
    long ds = (long)vm.verifDataSize();
    if (ds != live)
      fail("C19 data words " + std::to_string(ds) + " != live frame words " + std::to_string(live) +
           " depth " + std::to_string(n));
    if ((long)n > maxdepth) maxdepth = n;
    if (ds > maxdata) maxdata = ds;
    if (live > maxlive) maxlive = live;
    // word range: every stored value is a natural number below 2^31 (int is 32 bit: only <0 can fail)
    size_t lim = vm.verifDataSize();
    size_t from = 0;
    if (lim > 4096 && (boundaries & 63)) from = lim - 4096;  // bound the cost on unrepaired trees
    for (size_t i = from; i < lim; i++)
      if (vm.verifDataWord(i) < 0) {
        fail("C20 word " + std::to_string(i) + " = " + std::to_string(vm.verifDataWord(i)));
        break;
      }
  }
  // operand check before executing the instruction at ip; false => do not execute
  bool pre(const VM &vm) {
    const Program &p = vm.verifProgram();
    long ip = vm.verifInstructionPointer();
    long n = (long)p.code.size();
    if (ip < 0 || ip >= n) {
      fail("C03 ip " + std::to_string(ip) + " outside code");
      return false;
    }
    const Instruction &i = p.code[ip];
    size_t depth = vm.verifActivationCount();
    if ((int)i.op >= 0 && (int)i.op < 12) ophist[(int)i.op]++;
    auto top = [&](int r, const char *what) {
      if (depth == 0) {
        fail(std::string("C03 ") + what + " without activation at " + std::to_string(ip));
        return false;
      }
      long sz = vm.verifActivationSize(depth - 1);
      if (r < 0 || r >= sz) {
        fail(std::string("C03 ") + what + " register " + std::to_string(r) + " outside frame of " +
             std::to_string(sz) + " at " + std::to_string(ip));
        return false;
      }
      return true;
    };
    auto second = [&](int r, const char *what) {
      if (depth < 2) {
        fail(std::string("C03 ") + what + " without caller activation at " + std::to_string(ip));
        return false;
      }
      long sz = vm.verifActivationSize(depth - 2);
      if (r < 0 || r >= sz) {
        fail(std::string("C03 ") + what + " register " + std::to_string(r) + " outside caller frame of " +
             std::to_string(sz) + " at " + std::to_string(ip));
        return false;
      }
      return true;
    };
    auto target = [&](long t) {
      if (t < 0 || t >= n) {
        fail("C03 jump target " + std::to_string(t) + " outside code at " + std::to_string(ip));
        return false;
      }
      return true;
    };
    switch (i.op) {
      case OpCode::POTENTIAL_BREAK:
      case OpCode::BREAK:
        return target(ip + 1);
      case OpCode::HALT:
        return true;
      case OpCode::ADD_CONST:
        return top(i.parameters.add.target, "ADD target") && top(i.parameters.add.source, "ADD source") &&
               target(ip + 1);
      case OpCode::TEST:
        return top(i.parameters.test.target, "TEST target") && top(i.parameters.test.op1, "TEST op1") &&
               top(i.parameters.test.op2, "TEST op2") && target(ip + 1);
      case OpCode::CONST:
        return top(i.parameters.constant.target, "CONST target") && target(ip + 1);
      case OpCode::JMP:
        return target(ip + i.parameters.jmp.offset);
      case OpCode::JMPC:
        return top(i.parameters.jmpc.source, "JMPC source") && target(ip + i.parameters.jmpc.offset) &&
               target(ip + 1);
      case OpCode::PREPARE_EXEC: {
        if (i.parameters.prepare.count < 0 || i.parameters.prepare.count > (1 << 20)) {
          fail("C03 PREPARE count " + std::to_string(i.parameters.prepare.count));
          return false;
        }
        if (i.parameters.prepare.index < 0 || i.parameters.prepare.index >= (int)p.stack_maps.size()) {
          fail("C03 PREPARE stack map index " + std::to_string(i.parameters.prepare.index));
          return false;
        }
        if (depth > 0 && !top(i.parameters.prepare.target, "PREPARE return target")) return false;
        calls++;
        return target(ip + 1);
      }
      case OpCode::ARG:
        return top(i.parameters.arg.target, "ARG target") && second(i.parameters.arg.source, "ARG source") &&
               target(ip + 1);
      case OpCode::EXEC:
        if (depth == 0) {
          fail("C03 EXEC without activation");
          return false;
        }
        return target(i.parameters.exec.entry) && target(ip + 1);
      case OpCode::RET: {
        if (!top(i.parameters.ret.source, "RET source")) return false;
        if (depth < 2) {
          fail("C03 RET without caller at " + std::to_string(ip));
          return false;
        }
        if (!second(vm.verifActivationRetTarget(depth - 1), "RET target")) return false;
        if (!target(vm.verifActivationRetAddr(depth - 1))) return false;
        rets++;
        return true;
      }
      default:
        fail("C03 unknown opcode " + std::to_string((int)i.op) + " at " + std::to_string(ip));
        return false;
    }
  }
  void dump() {
    jkey("monitor");
    if (first.empty())
      OUT += "null";
    else
      jstr(first);
    OUT += ',';
    jkey("boundaries");
    jint(boundaries);
    OUT += ',';
    jkey("rets");
    jint(rets);
    OUT += ',';
    jkey("calls");
    jint(calls);
    OUT += ',';
    jkey("maxdepth");
    jint(maxdepth);
    OUT += ',';
    jkey("maxdata");
    jint(maxdata);
    OUT += ',';
    jkey("maxlive");
    jint(maxlive);
    OUT += ',';
    jkey("ophist");
    OUT += '[';
    for (int i = 0; i < 12; i++) {
      if (i) OUT += ',';
      jint(ophist[i]);
    }
    OUT += ']';
  }
};

static unsigned long long fnv(unsigned long long h, unsigned long long x) {
  h ^= x;
  h *= 1099511628211ULL;
  return h;
}
static unsigned long long fnvs(unsigned long long h, const std::string &s) {
  for (unsigned char c : s) h = fnv(h, c);
  return fnv(h, 0xff);
}
// digest of the API-visible variable views
static unsigned long long vdigest(VM &vm) {
  unsigned long long h = 1469598103934665603ULL;
  for (auto &a : vm.getActivations()) {
    h = fnv(h, 0xabc);
    for (auto &p : a.getActivationVariables()) {
      h = fnvs(h, p.first);
      h = fnv(h, (unsigned long long)(long long)p.second);
    }
  }
  return h;
}
// digest of the hidden state (hook): data words + activation geometry
static unsigned long long sdigest(const VM &vm) {
  unsigned long long h = 1469598103934665603ULL;
  size_t n = vm.verifDataSize();
  h = fnv(h, n);
  for (size_t i = 0; i < n; i++) h = fnv(h, (unsigned long long)(long long)vm.verifDataWord(i));
  size_t d = vm.verifActivationCount();
  h = fnv(h, d);
  for (size_t k = 0; k < d; k++) {
    h = fnv(h, vm.verifActivationBase(k));
    h = fnv(h, vm.verifActivationSize(k));
    h = fnv(h, vm.verifActivationRetTarget(k));
    h = fnv(h, (unsigned long long)(long long)vm.verifActivationRetAddr(k));
    h = fnv(h, vm.verifActivationStackMap(k));
  }
  return h;
}

static void mode_run(const Case &c) {
  long budget = c.opt("budget", 100000);
  bool with_program = c.opt("program", 1) != 0;
  bool monitors = c.opt("monitors", 1) != 0;
  long repeat = c.opt("repeat", 1);
  CodegenResult cr;
  long rewrites = 0;
  if (!guarded_compile(c, cr, rewrites)) {
    jkey("abandoned");
    OUT += "true";
    return;
  }
  dump_compile(cr, with_program);
  OUT += ',';
  jkey("rewrites");
  jint(rewrites);
  if (!cr.generated_correctly) return;
  unsigned long long first_digest = 0;
  // optional: reset() in the middle of the run (after the given numbers of instructions), then run on
  std::vector<long> reset_at;
  if (c.has("reset_at")) {
    std::istringstream rs(c.opts.at("reset_at").back());
    long v;
    while (rs >> v) reset_at.push_back(v);
  }
  // optional: "restore s1 s2 m": a copy of the machine is taken after s1 instructions and assigned back onto the machine after s2
  // instructions (m = 0 copy assignment, 1 move assignment) - the way a debugger front end implements "go back to the snapshot"
  long snap_at = -1, restore_at = -1, restore_move = 0;
  if (c.has("restore")) {
    std::istringstream rs(c.opts.at("restore").back());
    rs >> snap_at >> restore_at >> restore_move;
  }
  long restores_done = 0;
  for (long rep = 0; rep < repeat; rep++) {
    VM vm(cr.code);
    std::unique_ptr<VM> snap;
    // the same execution driven the way a debugger drives it: stepping mode on and/or every breakpoint enabled
    if (c.opt("stepping", 0)) vm.setSteppingMode(true);
    if (c.opt("breakall", 0))
      for (auto &b : cr.code.getAvailableBreakpoints()) vm.setBreakPoint(b.file, b.line, true);
    Monitor mon;
    long steps = 0;
    long resets_done = 0;
    bool stopped_by_monitor = false;
    while (steps < budget) {
      if ((size_t)resets_done < reset_at.size() && steps == reset_at[resets_done]) {
        vm.reset();
        if (c.opt("stepping", 0)) vm.setSteppingMode(true);
        resets_done++;
        if (monitors) mon.boundary(vm);
      }
      if (steps == snap_at && !snap) snap.reset(new VM(vm));
      if (steps == restore_at && snap && restores_done == rep) {
        if (restore_move)
          vm = std::move(*snap);
        else
          vm = *snap;
        snap.reset();
        restores_done++;
        if (c.opt("stepping", 0)) vm.setSteppingMode(true);
        if (monitors) mon.boundary(vm);
      }
      if (monitors) {
        if (!mon.pre(vm)) {
          stopped_by_monitor = true;
          break;
        }
      }
      if (vm.isDone()) break;
      vm.executeSingle();
      steps++;
      g_progress_steps++;
      if (monitors) mon.boundary(vm);
    }
    bool done = !stopped_by_monitor && vm.isDone();
    if (done && monitors) {
        // the loop above never dispatches the final HALT itself (isDone() is true as soon as the instruction pointer
        // stands on it): dispatch it, twice, and look at the state again
        vm.executeSingle();
        mon.boundary(vm);
        vm.executeSingle();
        mon.boundary(vm);
    }
    unsigned long long dg = fnv(fnv(vdigest(vm), sdigest(vm)), (unsigned long long)steps);
    if (rep == 0) {
      first_digest = dg;
      OUT += ',';
      jkey("done");
      OUT += done ? "true" : "false";
      OUT += ',';
      jkey("steps");
      jint(steps);
      OUT += ',';
      jkey("acts");
      dump_acts(vm);
      OUT += ',';
      mon.dump();
      OUT += ',';
      jkey("resets");
      jint(resets_done);
      OUT += ',';
      jkey("restores");
      jint(restores_done);
      OUT += ',';
      jkey("digest");
      jstr(std::to_string(dg));
      // the same program through the real execute() (its own loop) on a fresh machine: same final state?
      if (done && c.opt("via_execute", 1)) {
        VM v2(cr.code);
        v2.execute();
        unsigned long long d2 = fnv(vdigest(v2), sdigest(v2));
        VM v3(cr.code);
        long n3 = 0;
        while (!v3.isDone() && n3 <= steps) {
          v3.executeSingle();
          n3++;
        }
        unsigned long long d3 = fnv(vdigest(v3), sdigest(v3));
        OUT += ',';
        jkey("execute_agrees");
        OUT += (d2 == d3 && v2.isDone()) ? "true" : "false";
        if (d2 != d3) {
          OUT += ',';
          jkey("execute_acts");
          dump_acts(v2);
        }
      }
      // the end is absorbing (C17): further execute / executeSingle calls change nothing
      if (done && c.opt("absorb", 0)) {
        unsigned long long a0 = fnv(sdigest(vm), vm.verifInstructionPointer());
        vm.execute();
        bool r1 = vm.executeSingle();
        vm.execute();
        unsigned long long a1 = fnv(sdigest(vm), vm.verifInstructionPointer());
        OUT += ',';
        jkey("absorbing");
        OUT += (a0 == a1 && r1 && vm.isDone()) ? "true" : "false";
      }
    } else if (dg != first_digest) {
      OUT += ',';
      jkey("nondeterministic");
      OUT += "true";
      break;
    }
  }
  if (repeat > 1) {
    OUT += ',';
    jkey("repeats");
    jint(repeat);
  }
}

static void mode_step(const Case &c) {
  long budget = c.opt("budget", 100000);
  long maxstops = c.opt("maxstops", 2000);
  bool with_program = c.opt("program", 1) != 0;
  bool views = c.opt("views", 1) != 0;
  CodegenResult cr;
  long rewrites = 0;
  if (!guarded_compile(c, cr, rewrites)) {
    jkey("abandoned");
    OUT += "true";
    return;
  }
  dump_compile(cr, with_program);
  if (!cr.generated_correctly) return;
  VM vm(cr.code);
  vm.setSteppingMode(true);
  std::set<BreakPoint> reported;
  OUT += ',';
  {
    BreakPoint b0 = vm.getCurrentBreak();
    jkey("initial");
    OUT += '[';
    jstr(b0.file);
    OUT += ',';
    jint(b0.line);
    OUT += "],";
  }
  jkey("stops");
  OUT += '[';
  long steps = 0, nstops = 0;
  bool done = false, truncated = false;
  while (true) {
    if (vm.isDone()) {
      done = true;
      break;
    }
    if (steps >= budget || nstops >= maxstops) {
      truncated = true;
      break;
    }
    OpCode op = vm.verifProgram().code[vm.verifInstructionPointer()].op;
    long ip = vm.verifInstructionPointer();
    bool r = vm.executeSingle();
    steps++;
    g_progress_steps++;
    bool site = (op == OpCode::POTENTIAL_BREAK || op == OpCode::BREAK);
    if (r != site) {
      // executeSingle reported a stop without a site (or vice versa) in stepping mode
      if (nstops) OUT += ',';
      OUT += "[\"!\",";
      jint(ip);
      OUT += ',';
      jint(r);
      OUT += ",[]]";
      nstops++;
      continue;
    }
    if (!r) continue;
    BreakPoint bp = vm.getCurrentBreak();
    reported.insert(bp);
    if (nstops) OUT += ',';
    OUT += '[';
    jstr(bp.file);
    OUT += ',';
    jint(bp.line);
    OUT += ',';
    jint(ip);
    OUT += ',';
    if (views)
      dump_acts(vm);
    else
      OUT += "[]";
    OUT += ']';
    nstops++;
  }
  OUT += "],";
  jkey("done");
  OUT += done ? "true" : "false";
  OUT += ',';
  jkey("truncated");
  OUT += truncated ? "true" : "false";
  OUT += ',';
  jkey("steps");
  jint(steps);
  OUT += ',';
  jkey("acts");
  dump_acts(vm);
  if (c.opt("enable_check", 0)) {
    // can every available / listed / reported location be enabled, and are others refused? (C08)
    std::set<BreakPoint> probe = cr.code.getAvailableBreakpoints();
    for (auto &p : cr.code.line_info) probe.insert(p.second);
    for (auto &b : reported) probe.insert(b);
    std::set<BreakPoint> extra;
    for (auto &b : probe) {
      extra.insert({b.file, b.line + 100000});
      extra.insert({b.file + "~", b.line});
    }
    extra.insert({"__standards__", 1});
    extra.insert({"__standards__", 2});
    extra.insert({"none", -1});
    probe.insert(extra.begin(), extra.end());
    OUT += ',';
    jkey("avail_api");
    OUT += '[';
    {
      bool f0 = true;
      for (auto &b : cr.code.getAvailableBreakpoints()) {
        if (!f0) OUT += ',';
        f0 = false;
        OUT += '[';
        jstr(b.file);
        OUT += ',';
        jint(b.line);
        OUT += ']';
      }
    }
    OUT += ']';
    VM fresh(cr.code);
    OUT += ',';
    jkey("enable");
    OUT += '[';
    bool f = true;
    for (auto &b : probe) {
      bool r = fresh.setBreakPoint(b.file, b.line, true);
      bool member = fresh.getEnabledBreakPoints().count(b) > 0;
      if (!f) OUT += ',';
      f = false;
      OUT += '[';
      jstr(b.file);
      OUT += ',';
      jint(b.line);
      OUT += ',';
      jint(r ? 1 : 0);
      OUT += ',';
      jint(member ? 1 : 0);
      OUT += ']';
    }
    OUT += ']';
  }
}

// ---- debugger histories (C05, C06, C17)
static void dbg_obs(VM &vm, int ret) {
  BreakPoint bp = vm.getCurrentBreak();
  OUT += '[';
  jint(ret);
  OUT += ',';
  jint(vm.verifInstructionPointer());
  OUT += ',';
  jint(vm.isDone() ? 1 : 0);
  OUT += ',';
  jstr(bp.file);
  OUT += ',';
  jint(bp.line);
  OUT += ',';
  jint(vm.isSteppingModeEnabled() ? 1 : 0);
  OUT += ",[";
  bool f = true;
  for (auto &b : vm.getEnabledBreakPoints()) {
    if (!f) OUT += ',';
    f = false;
    OUT += '[';
    jstr(b.file);
    OUT += ',';
    jint(b.line);
    OUT += ']';
  }
  OUT += "],";
  jstr(std::to_string(vdigest(vm)));
  OUT += ',';
  jstr(std::to_string(sdigest(vm)));
  OUT += ',';
  jint((long long)vm.verifActivationCount());
  OUT += ",[";
  // indices whose opcode currently is BREAK
  const Program &p = vm.verifProgram();
  f = true;
  for (size_t i = 0; i < p.code.size(); i++)
    if (p.code[i].op == OpCode::BREAK) {
      if (!f) OUT += ',';
      f = false;
      jint((long long)i);
    }
  OUT += "]]";
}

static void mode_dbg(const Case &c) {
  long budget = c.opt("budget", 5000);
  CodegenResult cr;
  long rewrites = 0;
  if (!guarded_compile(c, cr, rewrites)) {
    jkey("abandoned");
    OUT += "true";
    return;
  }
  dump_compile(cr, true);
  if (!cr.generated_correctly) return;
  OUT += ',';
  // uninterrupted reference path: (ip, vdigest, sdigest) at every instruction boundary
  bool terminates = false;
  {
    VM vm(cr.code);
    jkey("path");
    OUT += '[';
    long n = 0;
    while (true) {
      if (n) OUT += ',';
      OUT += '[';
      jint(vm.verifInstructionPointer());
      OUT += ',';
      jstr(std::to_string(vdigest(vm)));
      OUT += ',';
      jstr(std::to_string(sdigest(vm)));
      OUT += ']';
      if (vm.isDone()) {
        terminates = true;
        break;
      }
      if (n >= budget) break;
      vm.executeSingle();
      n++;
    }
    OUT += "],";
    jkey("terminates");
    OUT += terminates ? "true" : "false";
    OUT += ',';
    // a fresh VM's observation, for C17
    jkey("fresh");
    VM fresh(cr.code);
    dbg_obs(fresh, -1);
    OUT += ',';
  }
  jkey("hist");
  OUT += '[';
  auto it = c.opts.find("hist");
  size_t nh = it == c.opts.end() ? 0 : it->second.size();
  for (size_t h = 0; h < nh; h++) {
    if (h) OUT += ',';
    OUT += '[';
    VM vm(cr.code);
    std::istringstream is(it->second[h]);
    std::string op;
    bool first = true;
    long used = 0;  // instructions executed in this history since the last reset (bounded)
    while (is >> op) {
      int ret = -1;
      char k = op[0];
      bool trunc = false;
      if (k == 'e') {
        if (terminates)
          vm.execute();
        else {
          // non-terminating program: the real execute() might never return; emulate its loop
          // (execute() is literally `while (!executeSingle());`) under a budget
          bool r = false;
          while (!r && used < 4 * budget) {
            r = vm.executeSingle();
            used++;
          }
          if (!r) trunc = true;
        }
      } else if (k == 's') {
        ret = vm.executeSingle() ? 1 : 0;
        used++;
      } else if (k == 'T')
        vm.setSteppingMode(true);
      else if (k == 't')
        vm.setSteppingMode(false);
      else if (k == 'b' || k == 'd') {
        // b:<hexfile>:<line>
        size_t p1 = op.find(':'), p2 = op.find(':', p1 + 1);
        std::string f = unhex(op.substr(p1 + 1, p2 - p1 - 1));
        int line = std::stoi(op.substr(p2 + 1));
        ret = vm.setBreakPoint(f, line, k == 'b') ? 1 : 0;
      } else if (k == 'c')
        vm.clearBreakpoints();
      else if (k == 'r') {
        vm.reset();
        used = 0;
      } else if (k == 'i') {
        for (auto &a : vm.getActivations()) a.getActivationVariables();
        vm.getCurrentBreak();
        vm.getEnabledBreakPoints();
        vm.isDone();
        vm.isSteppingModeEnabled();
      }
      if (!first) OUT += ',';
      first = false;
      if (trunc) {
        OUT += "\"T\"";
        break;
      }
      dbg_obs(vm, ret);
    }
    OUT += ']';
  }
  OUT += ']';
}

// ---- LR generator (C13): grammar given in OPT lines
//  OPT g <nNT> <prefix> <start>
//  OPT r <lhs> <k> sym...        (sym: tN / nN)
//  OPT i <k> t...                (input without eof; eof = terminal 0)
static void mode_lr(const Case &c) {
  std::istringstream gs(c.opts.at("g").back());
  int nnt, prefix, start;
  gs >> nnt >> prefix >> start;
  SemanticGrammar<std::string> G;
  std::vector<Grammar::Symbol> nts;
  for (int i = 0; i < nnt; i++) nts.push_back(G.createNonTerminal());
  std::map<int, int> altcount;
  auto rit = c.opts.find("r");
  if (rit != c.opts.end())
    for (auto &line : rit->second) {
      std::istringstream rs(line);
      int lhs, n;
      rs >> lhs >> n;
      std::vector<Grammar::Symbol> rhs;
      for (int i = 0; i < n; i++) {
        std::string s;
        rs >> s;
        int v = std::stoi(s.substr(1));
        rhs.push_back(s[0] == 't' ? Grammar::Symbol::Terminal(v) : (s[0] == 'e' ? Grammar::Symbol::Epsilon() : nts[v]));
      }
      int alt = altcount[lhs]++;
      std::string tag = "N" + std::to_string(lhs) + "." + std::to_string(alt);
      G.add(nts[lhs] >> rhs, [tag](std::vector<std::string> v) {
        std::string r = "(" + tag;
        for (auto &x : v) r += " " + x;
        return r + ")";
      });
    }
  {
    SemanticGrammar<std::string> H = G;
    H.calculateFirstSets();
    jkey("first");
    OUT += '[';
    for (int i = 0; i < nnt; i++) {
      if (i) OUT += ',';
      OUT += '[';
      bool f = true;
      for (auto &s : H.first_sets[nts[i]]) {
        if (!f) OUT += ',';
        f = false;
        jstr(s.t == Grammar::Symbol::EPSILON ? std::string("e") : "t" + std::to_string(s.index));
      }
      OUT += ']';
    }
    OUT += "],";
  }
  LRParser<std::string, int> p(
      G, prefix != 0, [](int t) { return Grammar::Symbol::Terminal(t); },
      [](int t) { return "t" + std::to_string(t); }, nts[start], Grammar::Symbol::Terminal(0));
  auto res = p.generateParseTables();
  jkey("conflicts");
  jint((long long)res.size());
  OUT += ',';
  jkey("results");
  OUT += '[';
  auto iit = c.opts.find("i");
  if (iit != c.opts.end() && res.empty()) {
    bool f = true;
    for (auto &line : iit->second) {
      std::istringstream rs(line);
      int n;
      rs >> n;
      std::vector<int> in;
      for (int i = 0; i < n; i++) {
        int t;
        rs >> t;
        in.push_back(t);
      }
      in.push_back(0);
      auto r = p.parse(in);
      if (!f) OUT += ',';
      f = false;
      if (r.t == r.ACCEPT)
        jstr(r.st);
      else
        OUT += "null";
    }
  }
  OUT += ']';
}

// ---------------------------------------------------------------- main
int main(int argc, char **argv) {
  if (argc < 2) {
    fprintf(stderr, "usage: theo_drv <casefile> [skip]\n");
    return 2;
  }
  std::ifstream in(argv[1], std::ios::binary);
  if (!in) {
    fprintf(stderr, "cannot open %s\n", argv[1]);
    return 2;
  }
  long skip = argc > 2 ? atol(argv[2]) : 0;
  long case_cpu = 600;
  if (const char *e = getenv("VERIF_CASE_CPU")) case_cpu = atol(e);
  signal(SIGPROF, on_cpu_timeout);
  OUT.reserve(64 << 20);
  Case c;
  long idx = 0;
  while (read_case(in, c)) {
    if (idx++ < skip) continue;
    snprintf(g_case_id, sizeof g_case_id, "%s", c.id.c_str());
    g_progress_rewrites = 0;
    g_progress_steps = 0;
    printf("BEGIN %s\n", c.id.c_str());
    fflush(stdout);
    arm_case_timer(case_cpu, c.opt("abandon", 0));
    OUT.clear();
    OUT += "{";
    jkey("id");
    jstr(c.id);
    OUT += ',';
    if (c.mode == "scan")
      mode_scan(c);
    else if (c.mode == "macro")
      mode_macro(c);
    else if (c.mode == "compile")
      mode_compile(c);
    else if (c.mode == "run")
      mode_run(c);
    else if (c.mode == "step")
      mode_step(c);
    else if (c.mode == "dbg")
      mode_dbg(c);
    else if (c.mode == "lr")
      mode_lr(c);
    else {
      fprintf(stderr, "unknown mode %s\n", c.mode.c_str());
      return 2;
    }
    arm_case_timer(0);
    OUT += "}\n";
    fwrite(OUT.data(), 1, OUT.size(), stdout);
    fflush(stdout);
  }
  printf("FINISHED\n");
  return 0;
}
