"""Orchestration: build -> plan -> parallel work -> merge -> known-findings matching -> evidence -> verdict.

A property module provides:
  ID, LEVEL, RULE, ASSUMPTIONS, FLAVOURS = [(flavour, variant, drivers)], TECHNIQUE
  plan(tier, seed) -> list of picklable chunk specs
  work(spec)       -> partial dict (see merge())
  finish(merged, tier) (optional) -> may append to merged['inconclusive'] / merged['violations']
  replay(case)     -> list of violations for one stored case
Exit codes: 0 held, 1 violation, 2 inconclusive / harness failure.
"""
import collections
import hashlib
import json
import multiprocessing
import os
import sys
import time
import traceback

from . import build

VERIF = os.path.dirname(os.path.dirname(os.path.abspath(__file__)))
BIN = {}  # (flavour, variant, driver) -> path ; filled before forking workers
NPROC = int(os.environ.get("VERIF_NPROC", "16"))


def seed_from_env():
    try:
        return int(os.environ.get("VERIF_SEED", "1"))
    except ValueError:
        return 1


def sub_seed(seed, *labels):
    h = hashlib.sha256(("%d|" % seed + "|".join(str(l) for l in labels)).encode()).digest()
    return int.from_bytes(h[:8], "big")


def chash(obj):
    return hashlib.sha1(json.dumps(obj, sort_keys=True, default=str).encode("latin-1", "replace")).hexdigest()[:16]


def new_partial():
    return {"evals": 0, "nontrivial": [], "stats": collections.Counter(), "samples": [], "violations": [],
            "inconclusive": []}


def merge(parts):
    m = {"evals": 0, "nontrivial": set(), "stats": collections.Counter(), "samples": [], "violations": [],
         "inconclusive": []}
    for p in parts:
        m["evals"] += p["evals"]
        m["nontrivial"].update(p["nontrivial"])
        for k, v in p["stats"].items():
            if k.startswith("max-"):
                m["stats"][k] = max(m["stats"][k], v)
            else:
                m["stats"][k] += v
        if len(m["samples"]) < 6:
            m["samples"].extend(p["samples"][: 6 - len(m["samples"])])
        m["violations"].extend(p["violations"])
        m["inconclusive"].extend(p["inconclusive"])
    return m


def load_known():
    p = os.path.join(VERIF, "known_findings.json")
    if not os.path.exists(p):
        return {"open": [], "fixed": []}
    return json.load(open(p))


def match_known(pid, v, known):
    for e in known.get("open", []):
        if pid == e["property"] or pid in e.get("also", []):
            sigs = e.get("signatures", [e.get("signature")])
            if v["signature"] in sigs:
                return e
    return None


def out_root():
    """where evidence/ and replays/ go; VERIF_OUT_DIR redirects them (development runs against patched scratch trees)"""
    return os.environ.get("VERIF_OUT_DIR", VERIF)


def pack_files(files):
    """very large files (millions of filler lines) are stored run-length encoded by line"""
    import itertools
    out = {}
    for k, v in files.items():
        if isinstance(v, str) and len(v) > 200000:
            out[k] = {"__rle_lines__": [[l, sum(1 for _ in g)] for l, g in itertools.groupby(v.split("\n"))]}
        else:
            out[k] = v
    return out


def unpack_files(files):
    out = {}
    for k, v in files.items():
        if isinstance(v, dict) and "__rle_lines__" in v:
            out[k] = "\n".join("\n".join([l] * n) for l, n in v["__rle_lines__"])
        else:
            out[k] = v
    return out


def write_replay(pid, v, seed):
    d = os.path.join(out_root(), "replays", pid)
    os.makedirs(d, exist_ok=True)
    if isinstance(v.get("case"), dict) and isinstance(v["case"].get("files"), dict):
        v = dict(v, case=dict(v["case"], files=pack_files(v["case"]["files"])))
    body = {"property": pid, "signature": v["signature"], "seed": seed, "message": v.get("message"),
            "case": v.get("case"), "expected": v.get("expected"), "observed": v.get("observed"),
            "sanitizer": v.get("sanitizer"), "tree_hash": build.tree_hash()}
    name = chash([v["signature"], v.get("case")]) + ".json"
    p = os.path.join(d, name)
    with open(p, "w") as f:
        json.dump(body, f, indent=1, default=str)
    return p


def write_evidence(mod, tier, seed, merged, wall, nviol, extra_cov=None):
    cov = {
        "evaluations": merged["evals"],
        "distinct_nontrivial": len(merged["nontrivial"]),
        "rule": mod.RULE,
        "samples": merged["samples"][:6] or ["(no sample recorded)"],
        "observed": dict(sorted(merged["stats"].items())),
    }
    if extra_cov:
        cov.update(extra_cov)
    ev = {"property_id": mod.ID, "tier": tier, "seed": seed, "level": mod.LEVEL, "coverage": cov,
          "assumptions": list(getattr(mod, "ASSUMPTIONS", [])), "wall_s": round(wall, 2), "violations": nviol}
    os.makedirs(os.path.join(out_root(), "evidence"), exist_ok=True)
    p = os.path.join(out_root(), "evidence", mod.ID + ".json")
    with open(p + ".tmp", "w") as f:
        json.dump(ev, f, indent=1, default=str)
    os.replace(p + ".tmp", p)


_MOD = None


def _work_wrapper(spec):
    mod = _MOD
    try:
        return mod.work(spec)
    except Exception:
        p = new_partial()
        p["inconclusive"].append("worker exception: " + traceback.format_exc()[-3000:])
        return p


def prepare_bins(mod):
    for fl in mod.FLAVOURS:
        flavour, variant = fl[0], fl[1]
        drivers = fl[2] if len(fl) > 2 else ("theo_drv",)
        res = build.build(flavour, variant, drivers=drivers)
        for d, path in res.items():
            BIN[(flavour, variant, d)] = path


def run_check(mod, tier, seed, replay=None):
    t0 = time.time()
    try:
        prepare_bins(mod)
    except build.BuildError as e:
        print("INCONCLUSIVE property=%s build failed:\n%s" % (mod.ID, e))
        return 2
    known = load_known()
    if replay:
        body = json.load(open(replay))
        if isinstance(body.get("case"), dict) and isinstance(body["case"].get("files"), dict):
            body["case"]["files"] = unpack_files(body["case"]["files"])
        vs = mod.replay(body["case"])
        for v in vs:
            print("VIOLATION property=%s replay=%s signature=%s" % (mod.ID, replay, v["signature"]))
            print("  " + str(v.get("message"))[:2000])
        if not vs:
            print("replay: property %s held on %s" % (mod.ID, replay))
        return 1 if vs else 0
    global _MOD
    _MOD = mod
    specs = mod.plan(tier, seed)
    parts = []
    if NPROC <= 1 or len(specs) <= 1:
        for s in specs:
            parts.append(_work_wrapper(s))
    else:
        ctx = multiprocessing.get_context("fork")
        with ctx.Pool(min(NPROC, len(specs))) as pool:
            for p in pool.imap_unordered(_work_wrapper, specs):
                parts.append(p)
    merged = merge(parts)
    extra = None
    if hasattr(mod, "finish"):
        extra = mod.finish(merged, tier, seed)
    # split violations
    unknown, knownhits = {}, {}
    for v in merged["violations"]:
        e = match_known(mod.ID, v, known)
        if e is not None:
            knownhits.setdefault(e["id"], (e, v))
        else:
            unknown.setdefault(v["signature"], v)
    for kid, (e, v) in sorted(knownhits.items()):
        print("KNOWN-FINDING: property=%s %s (%s)" % (mod.ID, e["what"], kid))
    wall = time.time() - t0
    merged["stats"]["known_finding_hits"] = sum(1 for v in merged["violations"] if match_known(mod.ID, v, known))
    write_evidence(mod, tier, seed, merged, wall, len(unknown), extra)
    rc = 0
    if unknown:
        for sig, v in list(unknown.items())[:12]:
            path = write_replay(mod.ID, v, seed)
            print("VIOLATION property=%s replay=%s" % (mod.ID, path))
            print("  signature: %s" % sig)
            print("  " + str(v.get("message"))[:1500].replace("\n", "\n  "))
        rc = 1
    elif merged["inconclusive"]:
        print("INCONCLUSIVE property=%s: %d note(s)" % (mod.ID, len(merged["inconclusive"])))
        for n in merged["inconclusive"][:5]:
            print("  " + str(n)[:1500].replace("\n", "\n  "))
        rc = 2
    print("%s property=%s tier=%s seed=%d evaluations=%d distinct_nontrivial=%d wall=%.1fs"
          % ("HELD" if rc == 0 else ("VIOLATED" if rc == 1 else "INCONCLUSIVE"), mod.ID, tier, seed,
             merged["evals"], len(merged["nontrivial"]), wall))
    keys = sorted(merged["stats"])
    print("  observed: " + ", ".join("%s=%d" % (k, merged["stats"][k]) for k in keys)[:3000])
    return rc


def main(argv):
    import argparse
    import importlib
    ap = argparse.ArgumentParser()
    ap.add_argument("id")
    ap.add_argument("--tier", default=os.environ.get("VERIF_TIER", "quick"))
    ap.add_argument("--replay")
    ap.add_argument("--seed", type=int, default=None)
    a = ap.parse_args(argv)
    tier = a.tier if a.tier in ("quick", "thorough") else "quick"
    seed = a.seed if a.seed is not None else seed_from_env()
    try:
        mod = importlib.import_module("vlib.props." + a.id.lower())
    except ImportError as e:
        print("no such check: %s (%s)" % (a.id, e))
        return 2
    try:
        return run_check(mod, tier, seed, a.replay)
    except Exception:
        print("INCONCLUSIVE property=%s harness failure:\n%s" % (a.id, traceback.format_exc()))
        return 2
