"""Batch execution of driver cases with crash attribution, watchdogs and sanitizer-report parsing."""
import json
import os
import re
import resource
import shutil
import subprocess
import tempfile

VERIF = os.path.dirname(os.path.dirname(os.path.abspath(__file__)))
RUNDIR = os.path.join(VERIF, ".cache", "run")

ASAN_BASE = "abort_on_error=1:hard_rss_limit_mb=3072:allocator_may_return_null=0:handle_abort=1:print_summary=1:malloc_context_size=12"
UBSAN = "print_stacktrace=1:halt_on_error=1"
TSAN = "halt_on_error=0:second_deadlock_stack=1"


def hexs(s):
    if isinstance(s, str):
        s = s.encode("latin-1")
    return s.hex() if s else "-"


def case_text(idx, case):
    """serialise one case dict: mode, main, files{name:str(latin-1)}, opts[(k,v)]"""
    out = [b"CASE c%d\n" % idx, b"MODE " + case["mode"].encode() + b"\n"]
    if "main" in case:
        m = case["main"].encode("latin-1").hex()
        out.append(b"MAIN " + m.encode() + b"\n")
    for name, content in case.get("files", {}).items():
        data = content.encode("latin-1") if isinstance(content, str) else content
        out.append(b"FILE %s %d\n" % (hexs(name).encode(), len(data)))
        out.append(data + b"\n")
    for k, v in case.get("opts", []):
        out.append(b"OPT %s %s\n" % (str(k).encode(), str(v).encode("latin-1")))
    out.append(b"END\n")
    return b"".join(out)


def write_cases(path, cases):
    with open(path, "wb") as f:
        for i, c in enumerate(cases):
            f.write(case_text(i, c))


_FRAME = re.compile(r"#\d+\s+0x[0-9a-f]+\s+in\s+(.+?)\s+(/\S+?):(\d+)")


def classify_report(stderr, repo_root):
    """-> (kind, innermost repo frame 'file:func') from sanitizer / assertion output"""
    kind = "crash"
    m = re.search(r"ERROR: AddressSanitizer: ([\w-]+)", stderr)
    if m:
        kind = "asan:" + m.group(1)
    elif "LeakSanitizer" in stderr:
        kind = "lsan:leak"
    m2 = re.search(r"runtime error: ([^\n]+)", stderr)
    if m2 and not m:
        msg = m2.group(1)
        msg = re.sub(r"-?\d+", "N", msg)
        kind = "ubsan:" + msg[:60]
    m3 = re.search(r"Assertion '([^']+)' failed", stderr)
    if m3:
        kind = "glibcxx-assert:" + m3.group(1)[:60]
    if "hard rss limit" in stderr:
        kind = "rss-limit"
    if "stack-overflow" in stderr:
        kind = "asan:stack-overflow"
    frame = None
    for fm in _FRAME.finditer(stderr):
        func, path, line = fm.groups()
        if "/VM/" in path or "/Compiler/" in path:
            if "/verif/" in path:
                continue
            base = path.split("/VM/")[-1] if "/VM/" in path else path.split("/Compiler/")[-1]
            fn = re.sub(r"\(.*", "", func)
            frame = "%s:%s" % (os.path.basename(base), fn.split("::")[-1])
            break
    return kind, frame


def _env(flavour, detect_leaks, case_cpu):
    env = dict(os.environ)
    env["ASAN_OPTIONS"] = ASAN_BASE + ":detect_leaks=%d" % (1 if detect_leaks else 0)
    env["UBSAN_OPTIONS"] = UBSAN
    env["TSAN_OPTIONS"] = TSAN
    env["VERIF_CASE_CPU"] = str(case_cpu)
    return env


def _limits():
    # deep (per token / per statement) recursion in the front end needs stack under ASan; the KF2
    # witness is replayed separately with the default 8 MiB
    try:
        resource.setrlimit(resource.RLIMIT_STACK, (512 << 20, 512 << 20))
    except (ValueError, OSError):
        pass
    resource.setrlimit(resource.RLIMIT_CORE, (0, 0))


def _parse_out(path, n_expected_from, results):
    """parse driver stdout; returns (finished, index_of_unfinished_case or None, timeout_info)"""
    cur = None
    finished = False
    timeout = None
    abandoned_at = None
    with open(path, "rb") as f:
        for raw in f:
            line = raw.decode("latin-1").rstrip("\n")
            if not line:
                continue
            if line.startswith("BEGIN c"):
                cur = int(line[7:])
            elif line.startswith("{"):
                try:
                    obj = json.loads(line)
                except ValueError:
                    continue  # torn line of a crashed process
                idx = int(obj["id"][1:])
                results[idx] = obj
                if cur == idx:
                    cur = None
            elif line.startswith("TIMEOUT c"):
                m = re.match(r"TIMEOUT c(\d+) rewrites=(-?\d+) steps=(-?\d+)", line)
                if m:
                    timeout = (int(m.group(1)), int(m.group(2)), int(m.group(3)))
            elif line.startswith("ABANDONED c"):
                m = re.match(r"ABANDONED c(\d+) rewrites=(-?\d+)", line)
                if m:
                    results[int(m.group(1))] = {"abandoned": True, "rewrites": int(m.group(2)), "id": "c" + m.group(1)}
                    if cur == int(m.group(1)):
                        cur = None
                        abandoned_at = int(m.group(1))
            elif line == "FINISHED":
                finished = True
    if abandoned_at is not None and not finished and cur is None:
        return finished, ("abandoned", abandoned_at), timeout
    return finished, cur, timeout


def run_cases(binary, cases, flavour="asan", detect_leaks=False, case_cpu=600, repo_root=None,
              keep_dir=None):
    """Run all cases through the driver.  Returns (results, notes).
    results[i] is the driver's JSON object, or {'crash':{kind,frame,stderr,exit}} or
    {'timeout':{rewrites,steps,strikes}}.  notes: batch-level observations (leak at exit)."""
    repo_root = repo_root or os.environ.get("VERIF_REPO_ROOT", "/repo")
    os.makedirs(RUNDIR, exist_ok=True)
    d = tempfile.mkdtemp(prefix="b", dir=RUNDIR)
    results = [None] * len(cases)
    notes = []
    try:
        cf = os.path.join(d, "cases")
        write_cases(cf, cases)
        skip = 0
        env = _env(flavour, detect_leaks, case_cpu)
        rounds = 0
        while skip < len(cases):
            rounds += 1
            of, ef = os.path.join(d, "out%d" % rounds), os.path.join(d, "err%d" % rounds)
            with open(of, "wb") as o, open(ef, "wb") as e:
                try:
                    p = subprocess.run([binary, cf, str(skip)], stdout=o, stderr=e, env=env,
                                       timeout=max(3600, 4 * case_cpu), preexec_fn=_limits)
                    rc = p.returncode
                except subprocess.TimeoutExpired:
                    rc = -999
            finished, cur, timeout = _parse_out(of, skip, results)
            stderr = open(ef, "rb").read().decode("latin-1")
            if finished:
                if rc != 0:
                    kind, frame = classify_report(stderr, repo_root)
                    notes.append({"at_exit": True, "kind": kind, "frame": frame, "stderr": stderr[-6000:],
                                  "exit": rc})
                break
            if isinstance(cur, tuple):
                skip = cur[1] + 1   # the driver left on purpose after an abandoned case (KF1)
                continue
            if cur is None:
                # died between cases or before the first one: harness problem
                notes.append({"harness": True, "stderr": stderr[-4000:], "exit": rc})
                # find first unresolved
                nxt = next((i for i in range(skip, len(cases)) if results[i] is None), None)
                if nxt is None:
                    break
                results[nxt] = {"crash": {"kind": "harness", "frame": None, "stderr": stderr[-4000:], "exit": rc}}
                skip = nxt + 1
                continue
            if timeout and timeout[0] == cur or rc == -999:
                rew, st = (timeout[1], timeout[2]) if timeout else (0, 0)
                results[cur] = {"timeout": {"rewrites": rew, "steps": st, "strikes": 1}}
            else:
                kind, frame = classify_report(stderr, repo_root)
                results[cur] = {"crash": {"kind": kind, "frame": frame, "stderr": stderr[-8000:], "exit": rc}}
            skip = cur + 1
        # second strike for timeouts: re-run alone
        for i, r in enumerate(results):
            if r is not None and "timeout" in r and r["timeout"]["strikes"] == 1:
                cf2 = os.path.join(d, "retry%d" % i)
                write_cases(cf2, [cases[i]])
                of = os.path.join(d, "rout%d" % i)
                with open(of, "wb") as o, open(os.path.join(d, "rerr%d" % i), "wb") as e:
                    try:
                        subprocess.run([binary, cf2, "0"], stdout=o, stderr=e, env=env, timeout=4 * case_cpu, preexec_fn=_limits)
                    except subprocess.TimeoutExpired:
                        pass
                tmp = [None]
                finished, cur, timeout = _parse_out(of, 0, tmp)
                if tmp[0] is not None:
                    results[i] = tmp[0]
                else:
                    rew, st = (timeout[1], timeout[2]) if timeout else (0, 0)
                    results[i] = {"timeout": {"rewrites": rew, "steps": st, "strikes": 2}}
        for i, r in enumerate(results):
            if r is None:
                results[i] = {"crash": {"kind": "harness:no-result", "frame": None, "stderr": "", "exit": None}}
        return results, notes
    finally:
        if keep_dir is None:
            shutil.rmtree(d, ignore_errors=True)
        else:
            shutil.move(d, keep_dir)


def is_crash(r):
    return "crash" in r


def is_timeout(r):
    return "timeout" in r
