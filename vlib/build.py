"""Build libtheo + drivers directly with g++ from the repository's *current working tree*.

Flavours (DESIGN 3.1):
  asan   -O1 -g ASan+UBSan, no recover, _GLIBCXX_ASSERTIONS
  tsan   -O1 -g TSan
  plain  -O1 -g
  cov    -O0 --coverage
Scanner variants: 'generated' (flex run on lexer.l into the cache, never into the repo) and
'committed' (the lex.yy.c in the tree).

Output: /verif/.cache/<tree hash>/<flavour>/{theo_drv.<variant>, mt_drv.<variant>}
The hash covers every file that is compiled (VM/{include,src}, Compiler/{include,src}) plus the
driver sources and the flag set, so an edited tree always gets a rebuild.
"""
import fcntl
import hashlib
import os
import shutil
import subprocess
import sys
import time
from concurrent.futures import ThreadPoolExecutor

VERIF = os.path.dirname(os.path.dirname(os.path.abspath(__file__)))
CACHE = os.path.join(VERIF, ".cache")
GUARD = "THEO_IDE_LIBTHEO_VERIF"

FLAVOURS = {
    "asan": ["-O1", "-g", "-fno-omit-frame-pointer", "-fsanitize=address,undefined",
             "-fno-sanitize-recover=all", "-D_GLIBCXX_ASSERTIONS"],
    "tsan": ["-O1", "-g", "-fsanitize=thread"],
    "plain": ["-O1", "-g"],
    "cov": ["-O0", "-g", "--coverage"],
}

LIB_SOURCES = [
    "VM/src/instr.cpp", "VM/src/vm.cpp", "VM/src/program.cpp",
    "Compiler/src/ast.cpp", "Compiler/src/parse.cpp", "Compiler/src/gen.cpp",
    "Compiler/src/compiler.cpp", "Compiler/src/scan.cpp", "Compiler/src/macro.cpp",
    "Compiler/src/ParserGenerator/grammar.cpp", "Compiler/src/ParserGenerator/lrdea.cpp",
]
HASH_DIRS = ["VM/include", "VM/src", "Compiler/include", "Compiler/src"]
HASH_FILES = ["Compiler/CMakeLists.txt"]


def flex_flags(root):
    """the option flags of the flex command in Compiler/CMakeLists.txt (the 'flex found' build configuration),
    without the output-file options; falls back to the flags documented there at the pinned commit"""
    import re
    default = ["--noline", "--nounistd"]
    try:
        txt = open(os.path.join(root, "Compiler/CMakeLists.txt")).read()
    except OSError:
        return default
    m = re.search(r"COMMAND\s+flex\b(.*?)(?:DEPENDS|WORKING_DIRECTORY|\))", txt, re.S)
    if not m:
        return default
    flags = []
    for tok in re.findall(r'"[^"]*"|\S+', m.group(1)):
        tok = tok.strip('"')
        if tok.startswith("--outfile") or tok.startswith("--header-file") or tok.startswith("-o") or tok.endswith(".l"):
            continue
        if tok.startswith("-"):
            flags.append(tok)
    return flags or default
DRIVERS = {"theo_drv": "drivers/theo_drv.cpp", "mt_drv": "drivers/mt_drv.cpp"}


class BuildError(Exception):
    pass


def repo_root():
    return os.environ.get("VERIF_REPO_ROOT", "/repo")


def tree_hash(root=None):
    root = root or repo_root()
    h = hashlib.sha256()
    for d in HASH_DIRS:
        base = os.path.join(root, d)
        for dp, dn, fn in sorted(os.walk(base)):
            dn.sort()
            for f in sorted(fn):
                p = os.path.join(dp, f)
                h.update(os.path.relpath(p, root).encode() + b"\0")
                with open(p, "rb") as fh:
                    h.update(fh.read())
                h.update(b"\0")
    for f in HASH_FILES:
        try:
            with open(os.path.join(root, f), "rb") as fh:
                h.update(f.encode() + b"\0" + fh.read())
        except OSError:
            pass
    for name, src in sorted(DRIVERS.items()):
        with open(os.path.join(VERIF, src), "rb") as fh:
            h.update(fh.read())
    h.update(repr(sorted(FLAVOURS.items())).encode())
    return h.hexdigest()[:20]


def _run(cmd, cwd=None):
    p = subprocess.run(cmd, cwd=cwd, stdout=subprocess.PIPE, stderr=subprocess.STDOUT)
    if p.returncode != 0:
        raise BuildError("command failed: %s\n%s" % (" ".join(cmd), p.stdout.decode("latin-1")[-4000:]))


def _prune(keep):
    """remove caches of older tree hashes (disk), keep the newest two besides `keep`"""
    try:
        ents = [e for e in os.listdir(CACHE) if os.path.isdir(os.path.join(CACHE, e)) and e != keep]
    except FileNotFoundError:
        return
    ents.sort(key=lambda e: os.path.getmtime(os.path.join(CACHE, e)), reverse=True)
    now = time.time()
    for n_, e in enumerate(ents[2:]):
        # never remove a cache that was used recently: another check may be running against that tree
        age = now - os.path.getmtime(os.path.join(CACHE, e))
        if e == "run" or e.endswith(".lock"):
            continue
        if age > 3 * 3600 or (n_ > 20 and age > 1800):
            shutil.rmtree(os.path.join(CACHE, e), ignore_errors=True)


def build(flavour, variant="generated", root=None, drivers=("theo_drv",), quiet=True):
    """returns dict driver-name -> path of the binary; raises BuildError"""
    root = root or repo_root()
    if flavour not in FLAVOURS:
        raise BuildError("unknown flavour " + flavour)
    os.makedirs(CACHE, exist_ok=True)
    th = tree_hash(root)
    out = os.path.join(CACHE, th, flavour)
    result = {d: os.path.join(out, "%s.%s" % (d, variant)) for d in drivers}
    if all(os.path.exists(p) for p in result.values()):
        try:
            os.utime(os.path.join(CACHE, th), None)
        except OSError:
            pass
        return result
    lock = open(os.path.join(CACHE, "build.lock"), "w")
    fcntl.flock(lock, fcntl.LOCK_EX)
    try:
        if all(os.path.exists(p) for p in result.values()):
            return result
        t0 = time.time()
        os.makedirs(out, exist_ok=True)
        flags = ["-std=c++20", "-I" + root, "-I" + os.path.join(root, "Compiler/include"),
                 "-D" + GUARD, "-pthread"] + FLAVOURS[flavour]
        jobs = []
        objs = []
        for src in LIB_SOURCES:
            o = os.path.join(out, src.replace("/", "_") + ".o")
            objs.append(o)
            if not os.path.exists(o):
                jobs.append(["g++"] + flags + ["-c", os.path.join(root, src), "-o", o + ".tmp"])
        # scanner object
        if variant == "generated":
            if shutil.which("flex") is None:
                raise BuildError("flex not available: 'generated' scanner variant cannot be built")
            gen_c = os.path.join(out, "lex.gen.c")
            if not os.path.exists(gen_c):
                _run(["flex", "--outfile=" + gen_c, "--header-file=" + os.path.join(out, "lex.gen.h")] + flex_flags(root)
                     + [os.path.join(root, "Compiler/src/lexer.l")], cwd=out)
            lex_src = gen_c
        else:
            lex_src = os.path.join(root, "Compiler/src/lex.yy.c")
        lex_o = os.path.join(out, "lex.%s.o" % variant)
        if not os.path.exists(lex_o):
            jobs.append(["g++"] + flags + ["-x", "c++", "-c", lex_src, "-o", lex_o + ".tmp"])
        drv_objs = {}
        for d in drivers:
            o = os.path.join(out, d + ".o")
            drv_objs[d] = o
            if not os.path.exists(o):
                jobs.append(["g++"] + flags + ["-I" + VERIF, "-c", os.path.join(VERIF, DRIVERS[d]), "-o", o + ".tmp"])
        with ThreadPoolExecutor(max_workers=16) as ex:
            list(ex.map(_run, jobs))
        for j in jobs:
            os.replace(j[-1], j[-1][:-4])
        for d in drivers:
            tmp = result[d] + ".tmp"
            _run(["g++"] + flags + [drv_objs[d]] + objs + [lex_o, "-o", tmp, "-ldl"])
            os.replace(tmp, result[d])
        if not quiet:
            print("built %s/%s in %.1fs (%s)" % (flavour, variant, time.time() - t0, th), file=sys.stderr)
        _prune(th)
        return result
    finally:
        fcntl.flock(lock, fcntl.LOCK_UN)
        lock.close()


def scanner_files_identical(root=None):
    """is the committed lex.yy.c byte-identical to flex's output for lexer.l? (None if no flex)"""
    root = root or repo_root()
    if shutil.which("flex") is None:
        return None
    th = tree_hash(root)
    out = os.path.join(CACHE, th, "flexcmp")
    os.makedirs(out, exist_ok=True)
    # same relative invocation as Compiler/CMakeLists.txt so that embedded names agree
    os.makedirs(os.path.join(out, "src"), exist_ok=True)
    os.makedirs(os.path.join(out, "include"), exist_ok=True)
    shutil.copy(os.path.join(root, "Compiler/src/lexer.l"), os.path.join(out, "src/lexer.l"))
    _run(["flex", "--outfile=./src/lex.yy.c", "--header-file=./include/lex.yy.h"] + flex_flags(root) + ["./src/lexer.l"], cwd=out)
    a = open(os.path.join(out, "src/lex.yy.c"), "rb").read()
    b = open(os.path.join(root, "Compiler/src/lex.yy.c"), "rb").read()
    return a == b


if __name__ == "__main__":
    fl = sys.argv[1:] or ["asan"]
    for f in fl:
        for v in (["generated", "committed"] if f in ("asan",) else ["generated"]):
            drv = ("theo_drv", "mt_drv") if f in ("tsan", "plain", "asan") else ("theo_drv",)
            print(build(f, v, drivers=drv, quiet=False))
