"""R5: source-level interpreter on R4's AST over unbounded integers.

* flat per-routine op list, so GOTO may cross loop boundaries in both directions
* LOOP keeps a hidden per-activation remaining-iterations counter (zero until the loop is entered)
* call-by-value, statically bound callee (latest complete earlier definition), fresh zeroed locals,
  OUT default x0; STOP freezes the whole activation stack
* counts steps (ticks) and emits stepping events (file, line, per-activation variable views)
"""
LIM = 2 ** 31 - 1


class Halt(Exception):
    pass


class Budget(Exception):
    pass


class Range(Exception):
    pass


def _vars_of(body, params=(), out=None):
    names = list(params)

    def add(n):
        if n not in names:
            names.append(n)

    def addv(v):
        if v[0] == "var":
            add(v[1])
        elif v[0] in ("inc", "dec"):
            add(v[1])
        elif v[0] == "call":
            for a in v[2]:
                addv(a)

    def walk(b):
        for st in b:
            k = st["k"]
            if k == "assign":
                add(st["var"])
                addv(st["val"])
            elif k in ("loop", "while"):
                add(st["var"])
                walk(st["body"])
            elif k == "if":
                add(st["var"])
    walk(body)
    if out:
        add(out)
    return names


def _flatten(body, endtok):
    ops = []
    labels = {}
    cnt = [0]

    def pos(tok):
        return (tok[2], tok[3])

    def emit(*a):
        ops.append(list(a))
        return len(ops) - 1

    def walk(b):
        for st in b:
            for l in st["labels"]:
                labels[l] = len(ops)
            k = st["k"]
            p = pos(st["first"])
            if k == "assign":
                emit("assign", p, st["var"], st["val"])
            elif k == "goto":
                emit("goto", p, st["target"])
            elif k == "if":
                emit("if", p, st["var"], st["c"], st["target"])
            elif k == "stop":
                emit("stop", p)
            elif k == "loop":
                cnt[0] += 1
                lid = cnt[0]
                emit("lenter", p, lid, st["var"])
                t = emit("ltest", None, lid, None)
                walk(st["body"])
                emit("lnext", None, lid, t)
                ops[t][3] = len(ops)
                emit("ev", pos(st["endtok"]))
            elif k == "while":
                emit("ev", p)
                t = emit("wtest", None, st["var"], None)
                walk(st["body"])
                emit("jmp", None, t)
                ops[t][3] = len(ops)
                emit("ev", pos(st["endtok"]))
    walk(body)
    if endtok is not None:
        emit("ret", pos(endtok))
    else:
        emit("end", None)
    return ops, labels


class Interp:
    def __init__(self, ast, budget, events=False, views=False, max_events=100000):
        self.defs = []
        for d in ast["defs"]:
            ops, labels = _flatten(d["body"], d["endtok"])
            self.defs.append({"d": d, "ops": ops, "labels": labels, "out": d["out"] or "x0",
                              "vars": _vars_of(d["body"], d["params"], d["out"] or "x0"), "name": d["name"]})
        ops, labels = _flatten(ast["main"], None)
        self.main = {"ops": ops, "labels": labels, "vars": _vars_of(ast["main"]), "name": "#root"}
        self.budget = budget
        self.steps = 0
        self.stack = []
        self.events = [] if events else None
        self.views = views
        self.max_events = max_events
        self.maxdepth = 0
        self.loop_iters = 0
        self.calls = 0
        self.maxval = 0
        self.feat = set()

    def ev(self, p):
        if self.events is not None:
            if len(self.events) >= self.max_events:
                raise Budget()
            self.events.append((p[0], p[1], [dict(a["vars"]) for a in self.stack] if self.views else None))

    def tick(self):
        self.steps += 1
        if self.steps > self.budget:
            raise Budget()

    def evalv(self, act, v):
        k = v[0]
        if k == "var":
            return act["vars"][v[1]]
        if k == "const":
            return v[1]
        if k == "inc":
            r = act["vars"][v[1]] + v[2]
        elif k == "dec":
            r = max(act["vars"][v[1]] - v[2], 0)
        else:
            args = [self.evalv(act, a) for a in v[2]]
            r = self.call(v[1], args)
        if r >= LIM:
            raise Range()
        if r > self.maxval:
            self.maxval = r
        return r

    def call(self, idx, args):
        R = self.defs[idx]
        self.calls += 1
        self.tick()
        act = {"vars": {n: 0 for n in R["vars"]}, "cnt": {}, "routine": R["name"]}
        for p, a in zip(R["d"]["params"], args):
            act["vars"][p] = a
        self.stack.append(act)
        if len(self.stack) > self.maxdepth:
            self.maxdepth = len(self.stack)
        self.run(R, act)
        r = act["vars"][R["out"]]
        self.stack.pop()
        return r

    def run(self, R, act):
        ops = R["ops"]
        labels = R["labels"]
        pc = 0
        vars_ = act["vars"]
        cnt = act["cnt"]
        while True:
            op = ops[pc]
            k = op[0]
            if k == "ev":
                self.ev(op[1])
                pc += 1
                continue
            if k == "end":
                return
            self.tick()
            if k == "assign":
                self.ev(op[1])
                vars_[op[2]] = self.evalv(act, op[3])
                pc += 1
            elif k == "ret":
                self.ev(op[1])
                return
            elif k == "goto":
                self.ev(op[1])
                np_ = labels[op[2]]
                self.feat.add("goto-back" if np_ <= pc else "goto-fwd")
                pc = np_
            elif k == "if":
                self.ev(op[1])
                if vars_[op[2]] == op[3]:
                    np_ = labels[op[4]]
                    self.feat.add("if-taken-back" if np_ <= pc else "if-taken-fwd")
                    pc = np_
                else:
                    pc += 1
            elif k == "stop":
                self.ev(op[1])
                self.feat.add("stop-in-callee" if len(self.stack) > 1 else "stop-in-root")
                raise Halt()
            elif k == "lenter":
                self.ev(op[1])
                cnt[op[2]] = vars_[op[3]]
                pc += 1
            elif k == "ltest":
                if cnt.get(op[2], 0) == 0:
                    pc = op[3]
                else:
                    self.loop_iters += 1
                    pc += 1
            elif k == "lnext":
                cnt[op[2]] = max(cnt.get(op[2], 0) - 1, 0)
                pc = op[3]
            elif k == "wtest":
                if vars_[op[2]] == 0:
                    pc = op[3]
                else:
                    self.loop_iters += 1
                    pc += 1
            elif k == "jmp":
                pc = op[2]

    def go(self):
        """-> 'done' | 'budget' | 'range'"""
        act = {"vars": {n: 0 for n in self.main["vars"]}, "cnt": {}, "routine": "#root"}
        self.stack.append(act)
        self.maxdepth = 1
        try:
            self.run(self.main, act)
            return "done"
        except Halt:
            return "done"
        except Budget:
            return "budget"
        except Range:
            return "range"
        except RecursionError:
            return "budget"

    def final(self):
        return [(a["routine"], dict(a["vars"])) for a in self.stack]
