"""R6 (part 2): brute-force CFG oracle: derivability table by fixpoint, then parse-tree enumeration
(capped at 2) pruned by derivability; a derivation cycle on a derivable span means infinitely many trees."""
import sys
sys.setrecursionlimit(10000)
class Oracle:
    def __init__(s,rules,nnt):
        s.rules=rules; s.nnt=nnt; s.byl={}
        cnt={}; s.alt={}
        for idx,(l,r) in enumerate(rules):
            s.byl.setdefault(l,[]).append((idx,r)); s.alt[idx]=cnt.get(l,0); cnt[l]=cnt.get(l,0)+1
    def table(s,w):
        n=len(w); D=set()  # (A,i,j)
        def feas(rhs,k,i,j):
            if k==len(rhs): return i==j
            X=rhs[k]
            if X[0]=='t': return i<j and w[i]==X[1] and feas(rhs,k+1,i+1,j)
            return any((X[1],i,m) in D and feas(rhs,k+1,m,j) for m in range(i,j+1))
        ch=True
        while ch:
            ch=False
            for l,r in s.rules:
                for i in range(n+1):
                    for j in range(i,n+1):
                        if (l,i,j) not in D and feas(r,0,i,j): D.add((l,i,j)); ch=True
        return D
    def trees(s,w,A):
        """list of up to 2 trees; returns 'CYCLE' marker inside if infinitely many"""
        n=len(w); D=s.table(w); memo={}; onstack=set(); s.inf=False
        def feas(rhs,k,i,j):
            if k==len(rhs): return i==j
            X=rhs[k]
            if X[0]=='t': return i<j and w[i]==X[1] and feas(rhs,k+1,i+1,j)
            return any((X[1],i,m) in D and feas(rhs,k+1,m,j) for m in range(i,j+1))
        def T(A,i,j):
            key=(A,i,j)
            if key not in D: return []
            if key in memo: return memo[key]
            if key in onstack: s.inf=True; return []   # genuine cyclic derivation of a derivable span
            onstack.add(key); res=[]
            for idx,rhs in s.byl.get(A,[]):
                for kids in seqs(rhs,0,i,j):
                    res.append((A,s.alt[idx],kids))
                    if len(res)>=2: break
                if len(res)>=2: break
            onstack.discard(key); memo[key]=res; return res
        def seqs(rhs,k,i,j):
            if k==len(rhs):
                if i==j: yield []
                return
            X=rhs[k]
            if X[0]=='t':
                if i<j and w[i]==X[1]:
                    for rest in seqs(rhs,k+1,i+1,j): yield [('t',X[1])]+rest
                return
            for m in range(i,j+1):
                if (X[1],i,m) in D and feas(rhs,k+1,m,j):
                    for t in T(X[1],i,m):
                        for rest in seqs(rhs,k+1,m,j): yield [t]+rest
        r=T(A,0,n)
        if s.inf and r: r=(r+r)[:2]
        return r
def fold(tree):
    if tree[0]=='t': return 't%d'%tree[1]
    A,alt,kids=tree
    return '(N%d.%d'%(A,alt)+''.join(' '+fold(k) for k in reversed(kids))+')'
