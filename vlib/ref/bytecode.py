"""R8: bytecode verifier by control-flow reachability from entry 0 and from every EXEC target
(layout-agnostic: no assumption about where routines are placed in the code array).

code: list of [op, operands...] as dumped by the driver (field-wise per opcode):
 0 POTENTIAL_BREAK, 1 BREAK, 2 HALT, 3 ADD(t,s,c), 4 JMP(off), 5 JMPC(off,src), 6 PREPARE(count,index,target),
 7 ARG(t,s), 8 EXEC(entry), 9 RET(src), 10 CONST(t,c), 11 TEST(t,a,b)
maps: list of [func_name, [[reg,name],...]]
"""
PB, BREAK, HALT, ADD, JMP, JMPC, PREP, ARG, EXEC, RET, CONST, TEST = range(12)
OPN = ["PBREAK", "BREAK", "HALT", "ADD", "JMP", "JMPC", "PREPARE", "ARG", "EXEC", "RET", "CONST", "TEST"]


def verify(code, maps, arity_by_map=None):
    """-> (problems, info).  info: routines{entry:set}, edges{entry:set(entry)}, depth, ncalls, njumps"""
    n = len(code)
    P = []
    info = {"routines": {}, "edges": {}, "depth": 0, "ncalls": 0, "njumps": 0, "cyclic": False}

    def bad(m):
        if len(P) < 50:
            P.append(m)

    if n < 2:
        return ["program shorter than 2 instructions"], info
    if code[0][0] != PREP:
        bad("code[0] is not PREPARE")
    if code[-1][0] != HALT:
        bad("last instruction is not HALT")
    for i, op in enumerate(code):
        if not (0 <= op[0] < 12):
            bad("unknown opcode %d at %d" % (op[0], i))
            return P, info

    def succ(i):
        op = code[i]
        k = op[0]
        if k == HALT or k == RET:
            return []
        if k == JMP:
            return [i + op[1]]
        if k == JMPC:
            return [i + op[1], i + 1]
        return [i + 1]  # EXEC: the return point; the callee is a separate entry

    owner = {}
    routines = {}
    work = [0]
    while work:
        e = work.pop()
        if e in routines:
            continue
        if not (0 <= e < n):
            bad("EXEC entry %d out of range" % e)
            routines[e] = set()
            continue
        seen = set()
        st = [e]
        while st:
            i = st.pop()
            if i in seen:
                continue
            if not (0 <= i < n):
                bad("successor %d out of range (routine %d)" % (i, e))
                continue
            seen.add(i)
            if code[i][0] == EXEC:
                work.append(code[i][1])
            st += succ(i)
        routines[e] = seen
        for i in seen:
            if i in owner and owner[i] != e:
                bad("instruction %d reachable from entries %d and %d (jump leaves its routine)" % (i, owner[i], e))
            owner[i] = e
    info["routines"] = routines
    # frame declarations per entry, collected from the PREPAREs that lead to it
    decl = {}
    if code[0][0] == PREP:
        decl[0] = {(code[0][1], code[0][2])}
    callargs = {}
    calls = {}  # index of PREPARE -> (target entry, [ARG instrs])
    for e, ins in routines.items():
        for i in sorted(ins):
            if code[i][0] == PREP and not (e == 0 and i == 0):
                j = i + 1
                args = []
                while j < n and code[j][0] == ARG:
                    args.append(code[j])
                    j += 1
                if j >= n or code[j][0] != EXEC:
                    bad("PREPARE at %d not followed by ARG* EXEC" % i)
                    continue
                tgt = code[j][1]
                decl.setdefault(tgt, set()).add((code[i][1], code[i][2]))
                callargs.setdefault(tgt, set()).add(len(args))
                calls[i] = (tgt, args)
                info["ncalls"] += 1
            elif code[i][0] in (JMP, JMPC):
                info["njumps"] += 1
    for e, d in decl.items():
        if len(d) != 1:
            bad("entry %d prepared with different (count, stack map) pairs %s" % (e, sorted(d)))
    for e, a in callargs.items():
        if len(a) != 1:
            bad("entry %d called with different argument counts %s" % (e, sorted(a)))
    for e, ins in routines.items():
        if e not in decl:
            if e != 0:
                bad("entry %d never prepared" % e)
            continue
        cnt, idx = sorted(decl[e])[0]
        if not (0 <= idx < len(maps)):
            bad("stack map index %d out of range (entry %d)" % (idx, e))
            continue
        if cnt < 0:
            bad("negative frame size %d (entry %d)" % (cnt, e))
        for r, _name in maps[idx][1]:
            if not (0 <= r < cnt):
                bad("stack map %d names register %d >= frame size %d" % (idx, r, cnt))
        if arity_by_map is not None and e in callargs and idx in arity_by_map:
            for a in callargs[e]:
                if a != arity_by_map[idx]:
                    bad("entry %d (%s) called with %d ARGs, source arity %d" % (e, maps[idx][0], a, arity_by_map[idx]))

        def reg(r, i, what):
            if not (0 <= r < cnt):
                bad("instr %d %s register %d outside frame of %d (routine %d)" % (i, what, r, cnt, e))

        for i in sorted(ins):
            op = code[i]
            k = op[0]
            if k == ADD:
                reg(op[1], i, "ADD target")
                reg(op[2], i, "ADD source")
            elif k == CONST:
                reg(op[1], i, "CONST target")
            elif k == TEST:
                reg(op[1], i, "TEST target")
                reg(op[2], i, "TEST op1")
                reg(op[3], i, "TEST op2")
            elif k == JMPC:
                reg(op[2], i, "JMPC source")
            elif k == RET:
                reg(op[1], i, "RET source")
                if e == 0:
                    bad("RET reachable from the root entry at %d" % i)
            elif k == PREP and not (e == 0 and i == 0):
                reg(op[3], i, "PREPARE return target")
                if i in calls:
                    tgt, args = calls[i]
                    if tgt in decl and len(decl[tgt]) == 1:
                        ccnt = sorted(decl[tgt])[0][0]
                        for a in args:
                            if not (0 <= a[1] < ccnt):
                                bad("ARG target %d outside callee frame %d (call at %d)" % (a[1], ccnt, i))
                            reg(a[2], i, "ARG source")
            elif k == ARG:
                if i == 0 or code[i - 1][0] not in (PREP, ARG):
                    bad("stray ARG at %d" % i)
            elif k == EXEC:
                if i == 0 or code[i - 1][0] not in (PREP, ARG):
                    bad("EXEC at %d without PREPARE" % i)
            elif k == PREP and e == 0 and i == 0:
                pass
        # falling off the end
        for i in ins:
            if code[i][0] not in (HALT, RET, JMP) and i + 1 >= n:
                bad("path falls off the end at %d" % i)
    # call graph: acyclic, depth
    edges = {e: set() for e in routines}
    for e, ins in routines.items():
        for i in ins:
            if code[i][0] == EXEC:
                edges[e].add(code[i][1])
    info["edges"] = edges
    color = {}
    depth = {}

    def dfs(u):
        color[u] = 1
        d = 1
        for v in edges.get(u, ()):
            if color.get(v) == 1:
                info["cyclic"] = True
                bad("call cycle through entry %d" % v)
            else:
                if v not in color:
                    dfs(v)
                d = max(d, 1 + depth.get(v, 1))
        color[u] = 2
        depth[u] = d

    try:
        dfs(0)
    except RecursionError:
        bad("call graph too deep")
    info["depth"] = depth.get(0, 1)
    return P, info
