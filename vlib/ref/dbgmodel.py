"""R7: debugger model over the recorded instruction path of the uninterrupted run.

state = (path index k, enabled set, stepping flag); predicts return values, stop positions, the reported
location after every API call, the enabled set and which instructions are currently BREAK.
Observation per op (driver): [ret, ip, done, curfile, curline, stepping, enabled, vdig, sdig, depth, breaks]
"""
HALT = 2


class Model:
    def __init__(self, comp):
        """comp: the driver's dbg output for one program (code, pb, li, path, fresh)"""
        self.code = comp["code"]
        self.pb = {(f, l): list(ss) for f, l, ss in comp["pb"]}
        self.li = {i: (f, l) for i, f, l in comp["li"]}
        # the sites OF a line are the sites whose own location is that line (site -> location table);
        # location -> sites is what the VM patches; if the two tables disagree the model follows the
        # sites' own locations, so a VM that stops at another line's site is flagged
        self.sites_of = {}
        for i, loc in self.li.items():
            self.sites_of.setdefault(loc, []).append(i)
        self.path = comp["path"]
        self.terminates = comp["terminates"]
        self.avail = set(self.pb)
        self.reset()

    def reset(self):
        self.k = 0
        self.en = set()
        self.stepping = False
        self.cur = ("none", -1)
        self.curknown = True

    def is_halt(self, ip):
        return self.code[ip][0] == HALT

    def is_site(self, ip):
        return self.code[ip][0] in (0, 1)

    def enabled_sites(self):
        s = set()
        for loc in self.en:
            s.update(self.sites_of.get(loc, []))
        return s

    def is_stop(self, ip, ensites):
        return self.is_site(ip) and (self.stepping or ip in ensites)

    def apply(self, op):
        """-> dict(ret=expected return or None, beyond=True if the model ran out of recorded path,
        stopped_at_site=bool)"""
        res = {"ret": None, "beyond": False, "site": False}
        c = op[0]
        P = self.path
        if c == "e":
            ens = self.enabled_sites()
            j = self.k
            while True:
                if j >= len(P):
                    res["beyond"] = True
                    return res
                ip = P[j][0]
                if self.is_halt(ip):
                    self.k = j
                    self.curknown = False
                    break
                if self.is_stop(ip, ens):
                    self.k = j + 1
                    self.cur = self.li.get(ip, ("none", -1))
                    self.curknown = True
                    res["site"] = True
                    break
                j += 1
            if self.k >= len(P):
                res["beyond"] = True
        elif c == "s":
            ip = P[self.k][0]
            if self.is_halt(ip):
                res["ret"] = 1
                self.curknown = False
            elif self.is_stop(ip, self.enabled_sites()):
                self.k += 1
                res["ret"] = 1
                self.cur = self.li.get(ip, ("none", -1))
                self.curknown = True
                res["site"] = True
            else:
                self.k += 1
                res["ret"] = 0
                self.curknown = False
            if self.k >= len(P):
                res["beyond"] = True
        elif c == "T":
            self.stepping = True
        elif c == "t":
            self.stepping = False
        elif c in "bd":
            _, fh, line = op.split(":")
            loc = (bytes.fromhex(fh).decode("latin-1"), int(line))
            if loc in self.avail:
                res["ret"] = 1
                if c == "b":
                    self.en.add(loc)
                else:
                    self.en.discard(loc)
            else:
                res["ret"] = 0
        elif c == "c":
            self.en = set()
        elif c == "r":
            self.reset()
        elif c == "i":
            pass
        return res

    def expected(self):
        """expected observable state after the last op"""
        ip, vd, sd = self.path[self.k]
        return {"ip": ip, "vdig": vd, "sdig": sd, "done": 1 if self.is_halt(ip) else 0,
                "stepping": 1 if self.stepping else 0, "enabled": sorted(self.en),
                "breaks": sorted(self.enabled_sites()), "cur": self.cur if self.curknown else None}


def bp(loc, enable=True):
    return "%s:%s:%d" % ("b" if enable else "d", loc[0].encode("latin-1").hex(), loc[1])
