"""R6 (part 1): independent textbook canonical LR(1) construction with the documented "prefix mode":
a complete item whose lookahead is $ acts on every terminal.
grammar: rules = list of (lhs:int, rhs: tuple of symbols); symbol = ('t',i) or ('n',i); terminal 0 is $.
"""
EOF_T=('t',0)
def first_sets(rules, nnt):
    nullable=set(); first={('n',i):set() for i in range(nnt)}
    ch=True
    while ch:
        ch=False
        for l,r in rules:
            A=('n',l); alln=True
            for s in r:
                if s[0]=='t':
                    if s not in first[A]: first[A].add(s); ch=True
                    alln=False; break
                else:
                    add=first[s]-first[A]
                    if add: first[A]|=add; ch=True
                    if s not in nullable: alln=False; break
            if alln and A not in nullable: nullable.add(A); ch=True
    return first,nullable
def first_of(seq, first, nullable):
    out=set()
    for s in seq:
        if s[0]=='t': out.add(s); return out,False
        out|=first[s]
        if s not in nullable: return out,False
    return out,True
def build(rules, nnt, start, prefix, terminals):
    # augmented: rule index -1: S' -> start
    rules=list(rules); first,nullable=first_sets(rules,nnt)
    byl={}
    for idx,(l,r) in enumerate(rules): byl.setdefault(l,[]).append(idx)
    AUG=len(rules); rules.append((-1,(('n',start),)))
    def closure(items):
        items=set(items); work=list(items)
        while work:
            (ri,dot,la)=work.pop()
            rhs=rules[ri][1]
            if dot<len(rhs) and rhs[dot][0]=='n':
                B=rhs[dot][1]; beta=rhs[dot+1:]
                f,alln=first_of(beta,first,nullable)
                las=set(f)
                if alln: las.add(la)
                for rj in byl.get(B,[]):
                    for b in las:
                        it=(rj,0,b)
                        if it not in items: items.add(it); work.append(it)
        return frozenset(items)
    def goto(I,X):
        return closure({(ri,dot+1,la) for (ri,dot,la) in I if dot<len(rules[ri][1]) and rules[ri][1][dot]==X})
    I0=closure({(AUG,0,EOF_T)})
    states=[I0]; index={I0:0}; trans={}
    i=0
    while i<len(states):
        I=states[i]
        syms={rules[ri][1][dot] for (ri,dot,la) in I if dot<len(rules[ri][1])}
        for X in syms:
            J=goto(I,X)
            if J not in index: index[J]=len(states); states.append(J)
            trans[(i,X)]=index[J]
        i+=1
    # actions & conflicts
    conflicts=0; action=[dict() for _ in states]
    for si,I in enumerate(states):
        acts={}  # terminal -> set of actions
        def put(t,a): acts.setdefault(t,set()).add(a)
        for (s,X),tgt in trans.items():
            if s==si and X[0]=='t': put(X,('s',tgt))
        for (ri,dot,la) in I:
            if dot==len(rules[ri][1]):
                a=('acc',) if ri==AUG else ('r',ri)
                if prefix and la==EOF_T:
                    for t in terminals: put(t,a)
                else: put(la,a)
        for t,a in acts.items():
            if len(a)>1: conflicts+=1
        action[si]=acts
    return dict(states=states,trans=trans,action=action,conflicts=conflicts,rules=rules,first=first,nullable=nullable)
