"""R6 (part 1): independent textbook canonical LR(1) construction with the documented "prefix mode":
a complete item whose lookahead is $ acts on every terminal.
grammar: rules = list of (lhs:int, rhs: tuple of symbols); symbol = ('t',i) or ('n',i); terminal 0 is $.
"""
EOF_T=('t',0)
def first_sets(rules, nnt):
    nullable=set(); first={('n',i):set() for i in range(nnt)}
    ch=True
    while ch:
        ch=False
        for l,r in rules:
            A=('n',l); alln=True
            for s in r:
                if s[0]=='t':
                    if s not in first[A]: first[A].add(s); ch=True
                    alln=False; break
                else:
                    add=first[s]-first[A]
                    if add: first[A]|=add; ch=True
                    if s not in nullable: alln=False; break
            if alln and A not in nullable: nullable.add(A); ch=True
    return first,nullable
def first_of(seq, first, nullable):
    out=set()
    for s in seq:
        if s[0]=='t': out.add(s); return out,False
        out|=first[s]
        if s not in nullable: return out,False
    return out,True
def build(rules, nnt, start, prefix, terminals):
    # augmented: rule index -1: S' -> start
    rules=list(rules); first,nullable=first_sets(rules,nnt)
    byl={}
    for idx,(l,r) in enumerate(rules): byl.setdefault(l,[]).append(idx)
    AUG=len(rules); rules.append((-1,(('n',start),)))
    def closure(items):
        items=set(items); work=list(items)
        while work:
            (ri,dot,la)=work.pop()
            rhs=rules[ri][1]
            if dot<len(rhs) and rhs[dot][0]=='n':
                B=rhs[dot][1]; beta=rhs[dot+1:]
                f,alln=first_of(beta,first,nullable)
                las=set(f)
                if alln: las.add(la)
                for rj in byl.get(B,[]):
                    for b in las:
                        it=(rj,0,b)
                        if it not in items: items.add(it); work.append(it)
        return frozenset(items)
    def goto(I,X):
        return closure({(ri,dot+1,la) for (ri,dot,la) in I if dot<len(rules[ri][1]) and rules[ri][1][dot]==X})
    I0=closure({(AUG,0,EOF_T)})
    states=[I0]; index={I0:0}; trans={}
    i=0
    while i<len(states):
        I=states[i]
        syms={rules[ri][1][dot] for (ri,dot,la) in I if dot<len(rules[ri][1])}
        for X in syms:
            J=goto(I,X)
            if J not in index: index[J]=len(states); states.append(J)
            trans[(i,X)]=index[J]
        i+=1
    # actions & conflicts
    conflicts=0; action=[dict() for _ in states]
    for si,I in enumerate(states):
        acts={}  # terminal -> set of actions
        def put(t,a): acts.setdefault(t,set()).add(a)
        for (s,X),tgt in trans.items():
            if s==si and X[0]=='t': put(X,('s',tgt))
        for (ri,dot,la) in I:
            if dot==len(rules[ri][1]):
                a=('acc',) if ri==AUG else ('r',ri)
                if prefix and la==EOF_T:
                    for t in terminals: put(t,a)
                else: put(la,a)
        for t,a in acts.items():
            if len(a)>1: conflicts+=1
        action[si]=acts
    return dict(states=states,trans=trans,action=action,conflicts=conflicts,rules=rules,first=first,nullable=nullable)


class Loop(Exception):
    """the LR run does not come to an end (a derivation cycle in a conflict-free table, KF4)"""


def parse(tab, w):
    """textbook LR driver on a conflict-free FULL-mode table built by build(): the parse tree of w (as cfg.Oracle builds
    them: ('t',i) leaves, (lhs, alternative number, kids) nodes) or None when w is not in the language"""
    rules = tab["rules"]
    aug = len(rules) - 1
    altno = {}
    cnt = {}
    for idx, (l, r) in enumerate(rules[:aug]):
        altno[idx] = cnt.get(l, 0)
        cnt[l] = altno[idx] + 1
    action, trans = tab["action"], tab["trans"]
    states = [0]
    vals = []
    toks = [("t", x) for x in w] + [EOF_T]
    i = 0
    fuel = 2000 * (len(w) + 2)
    while True:
        fuel -= 1
        if fuel < 0:
            raise Loop()
        acts = action[states[-1]].get(toks[i])
        if not acts:
            return None
        (a,) = tuple(acts)
        if a[0] == "s":
            states.append(a[1])
            vals.append(toks[i])
            i += 1
        elif a[0] == "acc":
            return vals[-1]
        else:
            l, rhs = rules[a[1]]
            n = len(rhs)
            kids = vals[len(vals) - n:] if n else []
            if n:
                del vals[len(vals) - n:]
                del states[len(states) - n:]
            vals.append((l, altno[a[1]], kids))
            states.append(trans[(states[-1], ("n", l))])


def sample_word(rnd, rules, nnt, start, depth, cap):
    """a word of the language obtained by a random derivation that keeps choosing freely for <depth> levels (so recursive
    rules nest about that deep) and then finishes by shortest derivations; -> (word, tree) or None (start unproductive)"""
    INF = 10 ** 9
    h = {i: INF for i in range(nnt)}
    ch = True
    while ch:
        ch = False
        for l, r in rules:
            v = 1 + max([h[s[1]] for s in r if s[0] == "n"] + [0])
            if v < h[l]:
                h[l] = v
                ch = True
    if h[start] >= INF:
        return None
    byl = {}
    cnt = {}
    for idx, (l, r) in enumerate(rules):
        a = cnt.get(l, 0)
        cnt[l] = a + 1
        if all(s[0] == "t" or h[s[1]] < INF for s in r):
            byl.setdefault(l, []).append((a, r, 1 + max([h[s[1]] for s in r if s[0] == "n"] + [0])))
    size = [0]
    word = []

    def expand(A, d):
        alts = byl[A]
        if d > 0 and size[0] < cap:
            rec = [x for x in alts if any(s[0] == "n" for s in x[1])]
            a, r, _ = rnd.choice(rec) if rec and rnd.random() < 0.97 else rnd.choice(alts)
        else:
            m = min(x[2] for x in alts)
            a, r, _ = rnd.choice([x for x in alts if x[2] == m])
        kids = []
        for s in r:
            if s[0] == "t":
                word.append(s[1])
                size[0] += 1
                kids.append(s)
            else:
                kids.append(expand(s[1], d - 1))
        return (A, a, kids)
    tree = expand(start, depth)
    return word, tree


def prefix_members(tab, w):
    """[(k, tree)] for every k such that w[:k] is in the language (conflict-free full-mode table): one LR run over w; after
    every shift the stack is copied and finished with the end marker as lookahead"""
    rules = tab["rules"]
    aug = len(rules) - 1
    altno = {}
    cnt = {}
    for idx, (l, r) in enumerate(rules[:aug]):
        altno[idx] = cnt.get(l, 0)
        cnt[l] = altno[idx] + 1
    action, trans = tab["action"], tab["trans"]

    def step(states, vals, tok):
        """apply reductions for lookahead tok; -> 'shift'/'acc'/None"""
        fuel = 2000 * (len(w) + 2)
        while True:
            fuel -= 1
            if fuel < 0:
                raise Loop()
            acts = action[states[-1]].get(tok)
            if not acts:
                return None
            (a,) = tuple(acts)
            if a[0] == "s":
                return a
            if a[0] == "acc":
                return a
            l, rhs = rules[a[1]]
            n = len(rhs)
            kids = vals[len(vals) - n:] if n else []
            if n:
                del vals[len(vals) - n:]
                del states[len(states) - n:]
            vals.append((l, altno[a[1]], kids))
            states.append(trans[(states[-1], ("n", l))])
    out = []
    states, vals = [0], []
    toks = [("t", x) for x in w]
    for i in range(len(toks) + 1):
        s2, v2 = list(states), list(vals)
        a = step(s2, v2, EOF_T)
        if a and a[0] == "acc":
            out.append((i, v2[-1]))
        if i == len(toks):
            break
        a = step(states, vals, toks[i])
        if not a or a[0] != "s":
            break
        states.append(a[1])
        vals.append(toks[i])
    return out
