"""R1: reference tokenizer, written from the scanner *specification* (lexer.l as documentation):
maximal munch, first rule wins ties, a token carries the line on which it ends.

Two implementations:
  tokenize_spec  - literal rule table (each documented rule in order, longest match, first on ties)
  tokenize       - a fast hand-written scanner; selftest cross-checks it against tokenize_spec.
Input is a str of latin-1 decoded bytes.  Output: list of (kind, text, line).
"""
import re

(T_EOF, ID, NV_ID, INT, PAREN_CLOSE, PAREN_OPEN, ARGSEP, PROGSEP, LABELDEC, ASSIGN, NEQ_ZERO, EQ, DO, LOOP,
 WHILE, GOTO, IF, THEN, STOP, END, PROGRAM, IN, OUT, INCLUDE, FNAME, DEFINE, AS, PRIORITY, END_DEFINE,
 PROG_TEMP, VALUE_TEMP, ID_TEMP, INT_TEMP, ARGS_TEMP, INSERTION, TEMP_VAL, RUN, WITH, UNKNOWN) = range(39)

KIND_NAMES = ["EOF", "ID", "OP", "INT", ")", "(", ",", ";", ":", ":=", "!= 0", "=", "DO", "LOOP", "WHILE",
              "GOTO", "IF", "THEN", "STOP", "END", "PROGRAM", "IN", "OUT", "INCLUDE", "FNAME", "DEFINE", "AS",
              "PRIORITY", "END_DEFINE", "<P>", "<V>", "<ID>", "<INT>", "<ARGS>", "$n", "#n", "RUN", "WITH",
              "UNKNOWN"]

# documented spellings
SPELL = {
    RUN: ["RUN", "Run", "run"], WITH: ["WITH", "With", "with"], DO: ["DO", "do", "Do"],
    LOOP: ["LOOP", "Loop", "loop"], WHILE: ["WHILE", "While", "while"], GOTO: ["GOTO", "Goto", "goto"],
    IF: ["IF", "If", "if"], THEN: ["THEN", "Then", "then"], STOP: ["STOP", "Stop", "stop"],
    END: ["END", "End", "end"], PROGRAM: ["PROGRAM", "Program", "program", "PROG", "Prog", "prog"],
    IN: ["IN", "In", "in"], OUT: ["OUT", "Out", "out"], INCLUDE: ["INCLUDE", "Include", "include"],
    DEFINE: ["DEFINE", "Define", "Def", "define", "def"], AS: ["AS", "As", "as"],
    PRIORITY: ["PRIORITY", "Priority", "priority", "PRIO", "Prio", "prio"],
    END_DEFINE: ["END DEFINE", "End Define", "end define", "ENDDEF", "Enddef", "enddef"],
}
_VALUE = ["VALUE", "Value", "value", "VAL", "Val", "val"]
SPELL[PROG_TEMP] = ["<%s>" % p for p in SPELL[PROGRAM]] + ["<P>", "<p>"]
SPELL[VALUE_TEMP] = ["<%s>" % v for v in _VALUE] + ["<V>", "<v>"]
SPELL[ID_TEMP] = ["<ID>", "<id>"]
SPELL[INT_TEMP] = ["<INT>", "<Int>", "<int>"]
SPELL[ARGS_TEMP] = ["<ARGS>", "<Args>", "<args>", "<A>", "<a>"]

_INT = r"(?:0|[1-9][0-9]*)"


def _lits(words):
    def f(s, pos):
        best = 0
        for w in words:
            if len(w) > best and s.startswith(w, pos):
                best = len(w)
        return best
    return f


def _rx(pattern):
    r = re.compile(pattern)

    def f(s, pos):
        m = r.match(s, pos)
        return len(m.group(0)) if m else 0
    return f


# the rule table, in the order of the specification; kind None = produces nothing
SPEC_RULES = [
    (None, _rx(r"[ \t\n]+")),
    (PAREN_OPEN, _lits(["("])), (PAREN_CLOSE, _lits([")"])), (ARGSEP, _lits([","])), (PROGSEP, _lits([";"])),
    (LABELDEC, _lits([":"])), (ASSIGN, _lits([":="])), (NEQ_ZERO, _lits(["!= 0"])), (EQ, _lits(["="])),
    (RUN, _lits(SPELL[RUN])), (WITH, _lits(SPELL[WITH])), (DO, _lits(SPELL[DO])), (LOOP, _lits(SPELL[LOOP])),
    (WHILE, _lits(SPELL[WHILE])), (GOTO, _lits(SPELL[GOTO])), (IF, _lits(SPELL[IF])), (THEN, _lits(SPELL[THEN])),
    (STOP, _lits(SPELL[STOP])), (END, _lits(SPELL[END])), (PROGRAM, _lits(SPELL[PROGRAM])), (IN, _lits(SPELL[IN])),
    (OUT, _lits(SPELL[OUT])), (INCLUDE, _lits(SPELL[INCLUDE])), (FNAME, _rx(r'"[^"]*"')),
    (DEFINE, _lits(SPELL[DEFINE])), (AS, _lits(SPELL[AS])), (PRIORITY, _lits(SPELL[PRIORITY])),
    (END_DEFINE, _lits(SPELL[END_DEFINE])), (PROG_TEMP, _lits(SPELL[PROG_TEMP])),
    (VALUE_TEMP, _lits(SPELL[VALUE_TEMP])), (ID_TEMP, _lits(SPELL[ID_TEMP])), (INT_TEMP, _lits(SPELL[INT_TEMP])),
    (INSERTION, _rx(r"\$" + _INT)), (TEMP_VAL, _rx(r"#" + _INT)),
    (ID, _rx(r"[a-zA-Z_][a-zA-Z0-9_]*")), (INT, _rx(_INT)), (ARGS_TEMP, _lits(SPELL[ARGS_TEMP])),
    (None, _rx(r"//[^\n]*")),
    (NV_ID, _rx(r"[\s\S]")),
]


def tokenize_spec(s):
    out = []
    pos = 0
    line = 1
    n = len(s)
    while pos < n:
        bk, bl = None, 0
        for k, f in SPEC_RULES:
            l = f(s, pos)
            if l > bl:
                bk, bl = k, l
        text = s[pos:pos + bl]
        line += text.count("\n")
        pos += bl
        if bk is not None:
            out.append((bk, text, line))
    return out


# ---------------------------------------------------------------- fast scanner
_KW = {}
for _k, _sp in SPELL.items():
    for _w in _sp:
        if _w[0] != "<" and " " not in _w:
            _KW[_w] = _k
_ENDDEF_LONG = {"END": " DEFINE", "End": " Define", "end": " define"}
_TEMPL = sorted([(w, k) for k in (PROG_TEMP, VALUE_TEMP, ID_TEMP, INT_TEMP, ARGS_TEMP) for w in SPELL[k]],
                key=lambda x: -len(x[0]))
_RE_ID = re.compile(r"[a-zA-Z_][a-zA-Z0-9_]*")
_RE_INT = re.compile(_INT)
_RE_WS = re.compile(r"[ \t\n]+")
_RE_FN = re.compile(r'"[^"]*"')
_RE_CM = re.compile(r"//[^\n]*")
_SINGLE = {"(": PAREN_OPEN, ")": PAREN_CLOSE, ",": ARGSEP, ";": PROGSEP, "=": EQ}
_IDSTART = set("abcdefghijklmnopqrstuvwxyzABCDEFGHIJKLMNOPQRSTUVWXYZ_")
_DIGITS = set("0123456789")


def tokenize(s):
    out = []
    pos = 0
    line = 1
    n = len(s)
    ap = out.append
    while pos < n:
        c = s[pos]
        if c in _IDSTART:
            m = _RE_ID.match(s, pos)
            w = m.group(0)
            k = _KW.get(w)
            if k is None:
                ap((ID, w, line))
                pos = m.end()
                continue
            if k == END and s.startswith(_ENDDEF_LONG[w], pos + 3):
                ap((END_DEFINE, s[pos:pos + 10], line))
                pos += 10
                continue
            ap((k, w, line))
            pos = m.end()
        elif c == " " or c == "\t" or c == "\n":
            m = _RE_WS.match(s, pos)
            line += m.group(0).count("\n")
            pos = m.end()
        elif c in _DIGITS:
            m = _RE_INT.match(s, pos)
            ap((INT, m.group(0), line))
            pos = m.end()
        elif c in _SINGLE:
            ap((_SINGLE[c], c, line))
            pos += 1
        elif c == ":":
            if s.startswith(":=", pos):
                ap((ASSIGN, ":=", line))
                pos += 2
            else:
                ap((LABELDEC, ":", line))
                pos += 1
        elif c == "/" and s.startswith("//", pos):
            pos = _RE_CM.match(s, pos).end()
        elif c == "<":
            for w, k in _TEMPL:
                if s.startswith(w, pos):
                    ap((k, w, line))
                    pos += len(w)
                    break
            else:
                ap((NV_ID, c, line))
                pos += 1
        elif c == "$" or c == "#":
            m = _RE_INT.match(s, pos + 1)
            if m:
                ap((INSERTION if c == "$" else TEMP_VAL, s[pos:m.end()], line))
                pos = m.end()
            else:
                ap((NV_ID, c, line))
                pos += 1
        elif c == '"':
            m = _RE_FN.match(s, pos)
            if m:
                line += m.group(0).count("\n")
                ap((FNAME, m.group(0), line))
                pos = m.end()
            else:
                ap((NV_ID, c, line))
                pos += 1
        elif c == "!" and s.startswith("!= 0", pos):
            ap((NEQ_ZERO, "!= 0", line))
            pos += 4
        else:
            ap((NV_ID, c, line))
            pos += 1
    return out
