"""R2: include resolution model (documented behaviour of Theo::scan / Theo::compile).

DFS with an *active-file stack*: missing -> report + request; currently active -> recursive + skip;
otherwise splice in place (repeated inclusion one after another is allowed).
Tokens: (kind, text, file, line).  Errors: (type, file, line, request).
"""
from . import lexer as L

MAIN_FILE_NOT_FOUND, EXPECTED_FILENAME, FILE_NOT_FOUND, RECURSIVE_INCLUDE = 0, 1, 2, 3
STANDARDS = "__standards__"
STANDARD_MACROS = ("DEFINE PRIO 1000000 <ID> + <INT> AS RUN __INC__ WITH $0, $1 END END DEFINE\n"
                   "DEFINE PRIO 1000000 <ID> - <INT> AS RUN __DEC__ WITH $0, $1 END END DEFINE\n  ")
INCL_PHRASE = 'include "__standards__"'


class Resolved:
    def __init__(self):
        self.toks = []       # without the final EOF token
        self.errors = []
        self.error_spans = []   # per error: (lowest, highest) line a report may carry: include keyword .. end of the token after it
        self.requests = []
        self.inclusions = []  # (includer, line, target) of every performed splice
        self.malformed = False  # an include without file name occurred (following token not judged)


def resolve(files, main, tokenizer=L.tokenize, limit=2000000):
    """files: dict name->str(latin-1).  Model of Theo::scan(files, main)."""
    r = Resolved()
    if main not in files:
        r.errors.append((MAIN_FILE_NOT_FOUND, "-", -1, main))
        r.error_spans.append((-1, -1))
        r.requests.append(main)
        return r
    cache = {}

    def toks_of(name):
        if name not in cache:
            cache[name] = tokenizer(files[name])
        return cache[name]

    def scanfile(name, active):
        ts = toks_of(name)
        i = 0
        n = len(ts)
        while i < n:
            k, t, l = ts[i]
            if k == L.INCLUDE:
                if i + 1 >= n or ts[i + 1][0] != L.FNAME:
                    line = ts[i + 1][2] if i + 1 < n else l
                    r.errors.append((EXPECTED_FILENAME, name, line, ""))
                    r.error_spans.append((l, line))
                    if i + 1 < n:
                        r.malformed = True   # a token follows the directive inside this file: what happens to it is not judged
                    i += 2
                    continue
                fn = ts[i + 1][1][1:-1]
                ln = ts[i + 1][2]
                if fn not in files:
                    r.errors.append((FILE_NOT_FOUND, name, ln, fn))
                    r.error_spans.append((l, ln))
                    r.requests.append(fn)
                elif fn in active:
                    r.errors.append((RECURSIVE_INCLUDE, name, ln, ""))
                    r.error_spans.append((l, ln))
                else:
                    r.inclusions.append((name, ln, fn))
                    scanfile(fn, active + [fn])
                i += 2
                continue
            r.toks.append((k, t, name, l))
            if len(r.toks) > limit:
                raise OverflowError("token limit")
            i += 1

    scanfile(main, [main])
    return r


def compile_view(files, main):
    """the file map as Theo::compile presents it to the scanner (hidden standard macros prepended)"""
    f2 = dict(files)
    if STANDARDS not in f2:
        f2[STANDARDS] = STANDARD_MACROS
    if main in f2:
        f2[main] = INCL_PHRASE + f2[main]
    return f2
