"""R3: reference macro model.

* extraction of well-formed definitions (DEFINE [PRIO n] pattern AS body END DEFINE)
* backtracking recursive-descent matcher for patterns over the documented slot grammar -
  no LR machinery - returning ALL (start, length, slot ranges) matches
* candidate ordering: priority desc, start asc, length desc
* body instantiation with provenance-tagged temporaries

Tokens are (kind, text, file, line).  Streams do NOT contain the final EOF token.
"""
from . import lexer as L

SLOT = {L.PROG_TEMP: "P", L.VALUE_TEMP: "V", L.ID_TEMP: "ID", L.INT_TEMP: "INT", L.ARGS_TEMP: "ARGS"}
TEXT_KINDS = (L.ID, L.INT, L.NV_ID)
INT_MAX = 2 ** 31 - 1
TMP_PREFIX = "\x00T"


class Malformed(Exception):
    pass


def extract(toks):
    """-> (program tokens, macros).  Raises Malformed for definitions the documentation calls errors
    (cut off by end of input, nested DEFINE, second AS, empty pattern, $n beyond the slots,
    priority out of range)."""
    out = []
    macros = []
    i = 0
    n = len(toks)
    while i < n:
        k = toks[i][0]
        if k != L.DEFINE:
            out.append(toks[i])
            i += 1
            continue
        dline = toks[i][3]
        i += 1
        prio = 0
        if i < n and toks[i][0] == L.PRIORITY:
            if i + 1 >= n or toks[i + 1][0] != L.INT:
                raise Malformed("PRIO without number")
            prio = int(toks[i + 1][1])
            if prio >= INT_MAX:
                raise Malformed("priority out of range")
            i += 2
        pat = []
        while i < n and toks[i][0] != L.AS:
            if toks[i][0] == L.DEFINE:
                raise Malformed("nested define")
            pat.append(toks[i])
            i += 1
        if i >= n:
            raise Malformed("define cut off")
        if not pat:
            raise Malformed("empty pattern")
        i += 1
        body = []
        while i < n and toks[i][0] != L.END_DEFINE:
            if toks[i][0] in (L.DEFINE, L.AS):
                raise Malformed("define/as inside body")
            body.append(toks[i])
            i += 1
        if i >= n:
            raise Malformed("define cut off")
        i += 1
        nslots = sum(1 for t in pat if t[0] in SLOT)
        for t in body:
            if t[0] == L.INSERTION:
                v = int(t[1][1:])
                if v >= INT_MAX or v >= nslots:
                    raise Malformed("insertion index beyond slots")
        macros.append({"prio": prio, "pattern": pat, "body": body, "order": len(macros),
                       "file": pat[0][2], "line": pat[0][3], "dline": dline})
    return out, macros


class Matcher:
    """all derivations of the documented slot non-terminals from position i of a token stream"""

    def __init__(self, toks):
        self.t = toks
        self.n = len(toks)
        self.memo = {}

    def k(self, i):
        return self.t[i][0] if i < self.n else -1

    def ends(self, what, i):
        key = (what, i)
        r = self.memo.get(key)
        if r is None:
            r = sorted(set(getattr(self, "m_" + what)(i)))
            self.memo[key] = r
        return r

    def m_ID(self, i):
        return [i + 1] if self.k(i) == L.ID else []

    def m_INT(self, i):
        return [i + 1] if self.k(i) == L.INT else []

    def m_V(self, i):
        r = []
        k = self.k(i)
        if k == L.ID or k == L.INT:
            r.append(i + 1)
        elif k == L.RUN and self.k(i + 1) == L.ID and self.k(i + 2) == L.WITH:
            for e in self.ends("ARGS", i + 3):
                if self.k(e) == L.END:
                    r.append(e + 1)
        return r

    def m_ARGS(self, i):
        # ARGS -> VALUE | ARGS , VALUE   == VALUE (, VALUE)*
        r = []
        for e in self.ends("V", i):
            r.append(e)
            if self.k(e) == L.ARGSEP:
                r += self.ends("ARGS", e + 1)
        return r

    def m_AT(self, i):
        r = []
        k = self.k
        k0 = k(i)
        if k0 == L.ID and k(i + 1) == L.ASSIGN:
            r += self.ends("V", i + 2)
        elif k0 == L.LOOP and k(i + 1) == L.ID and k(i + 2) == L.DO:
            r += [e + 1 for e in self.ends("P", i + 3) if k(e) == L.END]
        elif k0 == L.WHILE and k(i + 1) == L.ID and k(i + 2) == L.NEQ_ZERO and k(i + 3) == L.DO:
            r += [e + 1 for e in self.ends("P", i + 4) if k(e) == L.END]
        elif k0 == L.GOTO and k(i + 1) == L.ID:
            r.append(i + 2)
        elif (k0 == L.IF and k(i + 1) == L.ID and k(i + 2) == L.EQ and k(i + 3) == L.INT and k(i + 4) == L.THEN
              and k(i + 5) == L.GOTO and k(i + 6) == L.ID):
            r.append(i + 7)
        elif k0 == L.STOP:
            r.append(i + 1)
        return r

    def m_ST(self, i):
        r = list(self.ends("AT", i))
        if self.k(i) == L.ID and self.k(i + 1) == L.LABELDEC:
            r += self.ends("AT", i + 2)
        return r

    def m_P(self, i):
        # P -> P ; STATEMENT | STATEMENT
        r = []
        for e in self.ends("ST", i):
            r.append(e)
            if self.k(e) == L.PROGSEP:
                r += self.ends("P", e + 1)
        return r

    def match(self, pattern, start):
        """all (end, slots) with slots = list of (a, b) token ranges in slot order"""
        res = []
        t = self.t
        n = self.n
        np_ = len(pattern)

        def go(pi, i, slots):
            if pi == np_:
                res.append((i, slots))
                return
            p = pattern[pi]
            k = p[0]
            s = SLOT.get(k)
            if s is not None:
                for e in self.ends(s, i):
                    go(pi + 1, e, slots + [(i, e)])
            elif i < n and t[i][0] == k and (k not in TEXT_KINDS or t[i][1] == p[1]):
                go(pi + 1, i + 1, slots)
        go(0, start, [])
        return res


def candidates(toks, macros, matcher=None):
    """all matches of all macros: list of (prio, start, length, order, slots)"""
    M = matcher or Matcher(toks)
    c = []
    n = len(toks)
    for m in macros:
        pat = m["pattern"]
        k0 = pat[0][0]
        lit = k0 not in SLOT
        for st in range(n):
            if lit and toks[st][0] != k0:
                continue
            for e, slots in M.match(pat, st):
                if e > st:
                    c.append((m["prio"], st, e - st, m["order"], slots))
    return c


def best(cands):
    if not cands:
        return []
    key = lambda c: (-c[0], c[1], -c[2])
    b = min(map(key, cands))
    return [c for c in cands if key(c) == b]


def tmp_name(step, n):
    return "%s%d.%s" % (TMP_PREFIX, step, n)


def instantiate(toks, m, st, ln, slots, step):
    body = []
    for tok in m["body"]:
        k = tok[0]
        if k == L.INSERTION:
            a, b = slots[int(tok[1][1:])]
            body += toks[a:b]
        elif k == L.TEMP_VAL:
            body.append((L.ID, tmp_name(step, tok[1][1:]), tok[2], tok[3]))
        else:
            body.append(tok)
    return toks[:st] + body + toks[st + ln:]


def is_standard_only(macros):
    return all(m["file"] == "__standards__" for m in macros)


def _sugar_fast(toks, budget):
    """the two hidden standard macros only: <ID> (+|-) <INT>, equal priority => leftmost first.
    Rewrites never create or destroy another match to their left, so one left-to-right sweep
    with re-examination at the rewrite position is the same as restart-from-the-left."""
    toks = list(toks)
    steps = 0
    i = 0
    while i + 2 < len(toks):
        a, b, c = toks[i], toks[i + 1], toks[i + 2]
        if a[0] == L.ID and b[0] == L.NV_ID and b[1] in "+-" and len(b[1]) == 1 and c[0] == L.INT:
            if steps >= budget:
                return toks, steps, True
            line = 1 if b[1] == "+" else 2
            S = "__standards__"
            name = "__INC__" if b[1] == "+" else "__DEC__"
            toks[i:i + 3] = [(L.RUN, "RUN", S, line), (L.ID, name, S, line), (L.WITH, "WITH", S, line), a,
                             (L.ARGSEP, ",", S, line), c, (L.END, "END", S, line)]
            steps += 1
            i += 4  # the inserted ID a at i+3 is followed by ',' - cannot start a match; continue after it
            continue
        i += 1
    return toks, steps, False


def expand(toks, macros, budget=1024, want_steps=False, max_len=None):
    """-> (stream, nsteps, exhausted, steps) ; exhausted = still rewritable when the budget ran out.
    steps (if wanted): list of (order, start, length) chosen; among ties the first in definition order."""
    if not want_steps and is_standard_only(macros):
        s, n, ex = _sugar_fast(toks, budget)
        return s, n, ex, None
    cur = list(toks)
    steps = []
    n = 0
    expand.tied = False
    while True:
        b = best(candidates(cur, macros))
        if not b:
            return cur, n, False, steps
        if n >= budget:
            return cur, n, True, steps
        if len(set(x[3] for x in b)) > 1:
            expand.tied = True     # two DIFFERENT definitions tie on priority, start and length: which one is taken is not prescribed
        c = min(b, key=lambda x: x[3])
        m = next(mm for mm in macros if mm["order"] == c[3])
        cur = instantiate(cur, m, c[1], c[2], c[4], n)
        if max_len is not None and len(cur) > max_len:
            raise OverflowError("stream grows beyond %d tokens" % max_len)
        steps.append((c[3], c[1], c[2]))
        n += 1


expand.tied = False


def strip(toks):
    return [(t[0], t[1]) for t in toks]
