"""R6 applied to macro patterns: the documented slot grammar + one rule MACRO -> pattern, canonical LR(1)
in prefix mode.  A pattern is usable iff this construction has no conflict (C12)."""
from . import lexer as L
from .lr import build

t = lambda k: ("t", k)
nID, nINT, nV, nA, nP, nS, nAT, nM = [("n", i) for i in range(8)]
BASE = [
    (0, (t(L.ID),)), (1, (t(L.INT),)), (2, (nID,)), (2, (nINT,)),
    (2, (t(L.RUN), nID, t(L.WITH), nA, t(L.END))), (3, (nV,)), (3, (nA, t(L.ARGSEP), nV)),
    (4, (nP, t(L.PROGSEP), nS)), (4, (nS,)), (5, (nID, t(L.LABELDEC), nAT)), (5, (nAT,)),
    (6, (nID, t(L.ASSIGN), nV)), (6, (t(L.LOOP), nID, t(L.DO), nP, t(L.END))),
    (6, (t(L.WHILE), nID, t(L.NEQ_ZERO), t(L.DO), nP, t(L.END))), (6, (t(L.GOTO), nID)),
    (6, (t(L.IF), nID, t(L.EQ), nINT, t(L.THEN), t(L.GOTO), nID)), (6, (t(L.STOP),)),
]
TERMS = [("t", i) for i in range(0, 38)]
SLOTSYM = {L.ID_TEMP: nID, L.INT_TEMP: nINT, L.VALUE_TEMP: nV, L.ARGS_TEMP: nA, L.PROG_TEMP: nP}


def pattern_symbols(kinds):
    return tuple(SLOTSYM.get(k, t(k)) for k in kinds)


_cache = {}


def deterministic(kinds):
    """kinds: tuple of token kinds of the pattern.  True iff prefix-LR(1) without conflict."""
    kinds = tuple(kinds)
    r = _cache.get(kinds)
    if r is None:
        if any(k == L.T_EOF for k in kinds):
            r = False
        else:
            rules = BASE + [(7, pattern_symbols(kinds))]
            r = build(rules, 8, 7, True, TERMS)["conflicts"] == 0
        if len(_cache) < 200000:
            _cache[kinds] = r
    return r
