"""R4: reference LL(1) recogniser/parser for the documented grammar (header comment of parse.cpp)
plus the static rules of the language:
  * every RUN names a program whose definition is complete earlier in the text, with matching arity
    (the built-in __INC__/__DEC__ with (id, int) arguments are the lowered +/- sugar)
  * every jump target is a label of the same program body
  * every integer literal is below 2^31-1
Input: token list (kind, text, file, line) AFTER macro expansion (no EOF token).
Output: AST for the interpreter, or Rej.
"""
from . import lexer as L

INT_MAX = 2 ** 31 - 1


class Rej(Exception):
    pass


class Parser:
    def __init__(self, toks):
        self.t = list(toks) + [(L.T_EOF, "EOF", "-", -1)]
        self.i = 0
        self.defs = []        # all definitions in text order
        self.visible = {}     # name -> index into defs (latest complete definition)
        self.dup_params = False
        self.dup_labels = False
        self.uses_builtin_names = False
        self.max_stmt_tokens = 1
        self.nstmts = 0
        self.features = set()

    def la(self):
        return self.t[self.i][0]

    def eat(self, k):
        if self.t[self.i][0] != k:
            raise Rej("expected %s got %s at token %d" % (L.KIND_NAMES[k], L.KIND_NAMES[self.la()], self.i))
        tok = self.t[self.i]
        self.i += 1
        return tok

    def parse(self):
        while self.la() == L.PROGRAM:
            self.eat(L.PROGRAM)
            nametok = self.eat(L.ID)
            params = []
            out = None
            if self.la() == L.IN:
                self.eat(L.IN)
                params.append(self.eat(L.ID)[1])
                while self.la() == L.ARGSEP:
                    self.eat(L.ARGSEP)
                    params.append(self.eat(L.ID)[1])
                if self.la() == L.OUT:
                    self.eat(L.OUT)
                    out = self.eat(L.ID)[1]
            self.eat(L.DO)
            self.labels = set()
            self.gotos = set()
            body = self.seq()
            endtok = self.eat(L.END)
            if not self.gotos <= self.labels:
                raise Rej("unknown mark " + ",".join(sorted(self.gotos - self.labels)))
            if len(set(params)) != len(params):
                self.dup_params = True
            if nametok[1] in ("__INC__", "__DEC__"):
                self.uses_builtin_names = True
            d = {"name": nametok[1], "params": params, "out": out, "body": body, "endtok": endtok,
                 "index": len(self.defs), "tok": nametok}
            self.defs.append(d)
            self.visible[d["name"]] = d["index"]
        self.labels = set()
        self.gotos = set()
        main = self.seq()
        if not self.gotos <= self.labels:
            raise Rej("unknown mark " + ",".join(sorted(self.gotos - self.labels)))
        self.eat(L.T_EOF)
        return {"defs": self.defs, "main": main}

    def seq(self):
        b = [self.stmt()]
        while self.la() == L.PROGSEP:
            self.eat(L.PROGSEP)
            b.append(self.stmt())
        return b

    def stmt(self):
        start = self.i
        labels = []
        while True:
            k = self.la()
            if k == L.ID and self.t[self.i + 1][0] == L.LABELDEC:
                name = self.eat(L.ID)
                self.eat(L.LABELDEC)
                if name[1] in self.labels:
                    self.dup_labels = True
                self.labels.add(name[1])
                labels.append(name)
                continue
            break
        first = self.t[start]
        k = self.la()
        self.nstmts += 1
        if k == L.ID:
            v = self.eat(L.ID)
            if self.la() != L.ASSIGN:
                raise Rej("expected := or : after identifier")
            self.eat(L.ASSIGN)
            val = self.value()
            st = {"k": "assign", "var": v[1], "val": val, "tok": v}
            self.max_stmt_tokens = max(self.max_stmt_tokens, self.i - start)
        elif k == L.LOOP:
            t0 = self.eat(L.LOOP)
            v = self.eat(L.ID)
            self.eat(L.DO)
            body = self.seq()
            e = self.eat(L.END)
            st = {"k": "loop", "var": v[1], "body": body, "endtok": e, "tok": t0}
        elif k == L.WHILE:
            t0 = self.eat(L.WHILE)
            v = self.eat(L.ID)
            self.eat(L.NEQ_ZERO)
            self.eat(L.DO)
            body = self.seq()
            e = self.eat(L.END)
            st = {"k": "while", "var": v[1], "body": body, "endtok": e, "tok": t0}
        elif k == L.GOTO:
            t0 = self.eat(L.GOTO)
            tgt = self.eat(L.ID)
            self.gotos.add(tgt[1])
            st = {"k": "goto", "target": tgt[1], "tok": t0}
        elif k == L.IF:
            t0 = self.eat(L.IF)
            v = self.eat(L.ID)
            self.eat(L.EQ)
            c = self.lit(self.eat(L.INT))
            self.eat(L.THEN)
            self.eat(L.GOTO)
            tgt = self.eat(L.ID)
            self.gotos.add(tgt[1])
            st = {"k": "if", "var": v[1], "c": c, "target": tgt[1], "tok": t0}
        elif k == L.STOP:
            t0 = self.eat(L.STOP)
            st = {"k": "stop", "tok": t0}
        else:
            raise Rej("expected statement got " + L.KIND_NAMES[k])
        st["labels"] = [l[1] for l in labels]
        st["first"] = first
        self.features.add(st["k"])
        return st

    def lit(self, tok):
        v = int(tok[1])
        if v >= INT_MAX:
            raise Rej("literal out of range")
        return v

    def value(self):
        k = self.la()
        if k == L.ID:
            return ("var", self.eat(L.ID)[1])
        if k == L.INT:
            return ("const", self.lit(self.eat(L.INT)))
        if k == L.RUN:
            self.eat(L.RUN)
            name = self.eat(L.ID)[1]
            self.eat(L.WITH)
            args = []
            if self.la() in (L.ID, L.INT, L.RUN):
                args.append(self.value())
                while self.la() == L.ARGSEP:
                    self.eat(L.ARGSEP)
                    args.append(self.value())
            self.eat(L.END)
            if name in ("__INC__", "__DEC__"):
                if len(args) == 2 and args[0][0] == "var" and args[1][0] == "const":
                    return ("inc" if name == "__INC__" else "dec", args[0][1], args[1][1])
                self.uses_builtin_names = True
            if name not in self.visible:
                raise Rej("unknown program " + name)
            d = self.defs[self.visible[name]]
            if len(d["params"]) != len(args):
                raise Rej("argument count")
            self.features.add("call")
            if any(a[0] == "call" for a in args):
                self.features.add("nested-call")
            return ("call", d["index"], args)
        raise Rej("expected value got " + L.KIND_NAMES[k])


def parse(toks):
    """-> (ast, parser) or raises Rej"""
    p = Parser(toks)
    ast = p.parse()
    return ast, p


def accepts(toks):
    """-> (verdict, reason, excluded) ; excluded = treatment left open by the documentation"""
    p = Parser(toks)
    try:
        p.parse()
        return True, "", (p.dup_params or p.dup_labels or p.uses_builtin_names)
    except Rej as e:
        return False, str(e), (p.dup_params or p.dup_labels or p.uses_builtin_names)
