"""The reference front end R1 -> R2 -> R3 -> R4 (-> R5) on the same text the compiler gets."""
import sys

from . import includes, interp, lexer as L, macros, parser

sys.setrecursionlimit(max(sys.getrecursionlimit(), 30000))   # LOOP nests and include chains more than a thousand deep


class Front:
    """result of the reference front end"""
    __slots__ = ("res", "toks", "macros", "stream", "nrewrites", "exhausted", "ast", "parser", "verdict",
                 "reason", "excluded", "malformed_macros", "has_user_macros", "tied")


def front(files, main, budget=1024):
    """model of Theo::compile's front end.  files: dict name -> latin-1 str."""
    f = Front()
    view = includes.compile_view(files, main)
    f.res = includes.resolve(view, main)
    f.toks = f.res.toks
    f.ast = None
    f.parser = None
    f.excluded = False
    f.malformed_macros = False
    f.exhausted = False
    f.nrewrites = 0
    f.stream = None
    f.macros = []
    f.has_user_macros = False
    f.tied = False
    if f.res.errors:
        f.verdict = False
        f.reason = "scan/include error"
        return f
    try:
        prog, ms = macros.extract(f.toks)
    except macros.Malformed as e:
        f.verdict = False
        f.reason = "malformed macro definition: %s" % e
        f.malformed_macros = True
        return f
    f.macros = ms
    f.has_user_macros = any(m["file"] != includes.STANDARDS for m in ms)
    try:
        macros.expand.tied = False
        f.stream, f.nrewrites, f.exhausted, _ = macros.expand(prog, ms, budget, max_len=max(4000, 8 * len(prog)))
        f.tied = macros.expand.tied
    except (RecursionError, OverflowError):
        f.verdict = False
        f.reason = "reference gave up: runaway macro expansion"
        f.exhausted = True
        f.nrewrites = budget
        return f
    if f.exhausted:
        f.verdict = False
        f.reason = "macro budget exhausted"
        return f
    p = parser.Parser(f.stream)
    f.parser = p
    try:
        f.ast = p.parse()
        f.verdict = True
        f.reason = ""
    except parser.Rej as e:
        f.verdict = False
        f.reason = str(e)
    # (a tie between two different macro definitions leaves the expansion unprescribed: such sources are not judged)
    f.excluded = p.dup_params or p.dup_labels or p.uses_builtin_names or f.tied
    return f


def run(f, budget, events=False, views=False, max_events=100000):
    it = interp.Interp(f.ast, budget, events=events, views=views, max_events=max_events)
    status = it.go()
    return status, it
