"""C13 - generated LR(1) parsers recognise exactly their grammar."""
import itertools

import sys

from .. import harness
from ..ref import cfg, lr
from . import common

ID = "C13"
LEVEL = "exploration"
TECHNIQUE = "reference-model monitor: brute-force CFG membership / parse-tree oracle and textbook FIRST + canonical LR(1) (R6) vs the real table generator and parser driver on random small grammars with all short inputs, under ASan+UBSan"
FLAVOURS = [("asan", "generated")]
RULE = ("random context-free grammars (<= 3 non-terminals, <= 3 terminals, <= 9 rules; plus larger ones with 4-6 non-terminals rich in unit and epsilon rules, short inputs; right-hand sides <= 5 symbols, with epsilon rules (also written with explicit, repeated epsilon symbols inside a right-hand side), left/right "
        "recursion, useless and rule-less symbols), each in full or prefix mode, with ALL end-marked inputs up to length L (quick 5, thorough 7) over "
        "the terminals up to the largest index used, and for 70% of the grammars (and ten textbook recursive grammars, nesting up to 1200) whose reference canonical LR(1) table is conflict-free also words from random derivations nested "
        "20-400 levels deep (up to ~600 tokens) with damaged copies, judged by the reference LR run cross-checked against the generating derivation; conflict-free grammar: accept iff the input (prefix mode: some prefix) is in the language and "
        "the returned value is the fold of the unique tree (children last-first); ambiguous grammar (>= 2 trees for some input or a derivation "
        "cycle): at least one conflict must be reported; FIRST sets = textbook fixpoint; "
        "non-trivial = grammar with >= 1 accepted input or >= 1 conflict; distinct by SHA-1 of (rules, mode)")
ASSUMPTIONS = ["R6 (vlib/ref/lr.py, cfg.py): membership and trees of the short inputs by exhaustive derivation - no LR machinery on the oracle side; long inputs by the reference's own textbook canonical LR(1) run, only for grammars where that table is conflict-free",
               "KF4: a grammar with a derivation cycle whose table is nevertheless conflict-free (the cycle sits where no terminal string can be derived) can make the driver reduce for ever; such grammars get a 10 s watchdog and a hang on them is the known finding",
               "not judged: grammars that are unambiguous but not LR(1); conflicts reported for useless grammars where the same reduction is entered twice"]


KF4_SIG = "kf4:lr-driver-loops-on-conflict-free-cyclic-grammar"


def plan(tier, seed):
    n = 6000 if tier == "quick" else 24000
    L_ = 5 if tier == "quick" else 7
    specs = [{"seed": seed, "chunk": i, "n": 200, "L": L_, "big": False} for i in range(n // 200)]
    # larger grammars (4-6 non-terminals, many unit and epsilon rules: nullability has to travel through forward
    # references over several fixpoint rounds); short inputs only, the weight is on FIRST and on membership of short words
    m = 4000 if tier == "quick" else 24000
    specs += [{"seed": seed, "chunk": 100000 + i, "n": 200, "L": 3 if tier == "quick" else 4, "big": True} for i in range(m // 200)]
    # wide grammars: 4-5 terminals (lookahead sets that overlap without being equal), 2-4 non-terminals, inputs up to length 4
    w = 3000 if tier == "quick" else 18000
    specs += [{"seed": seed, "chunk": 200000 + i, "n": 150, "L": 4 if tier == "quick" else 5, "big": "wide"} for i in range(w // 150)]
    # shared-prefix grammars: several alternatives start with the same non-terminal and continue differently, so one state holds
    # items that wait for the same non-terminal with different, overlapping lookahead sets
    q = 3000 if tier == "quick" else 18000
    specs += [{"seed": seed, "chunk": 300000 + i, "n": 150, "L": 4 if tier == "quick" else 5, "big": "prefix"} for i in range(q // 150)]
    # textbook recursive grammars with long, deeply nested inputs (up to ~1200 levels)
    specs += [{"seed": seed, "chunk": 400000 + i, "n": len(CLASSIC), "L": 3, "big": "classic"} for i in range(4 if tier == "quick" else 40)]
    return specs


T1, T2, T3, T4, T5 = (("t", i) for i in range(1, 6))
N0, N1, N2 = (("n", i) for i in range(3))
CLASSIC = [
    (1, 2, [(0, (T1, N0)), (0, (T2,))]),                                   # right recursion  a^n b
    (1, 1, [(0, (T1, N0)), (0, ())]),                                      # a^n through an epsilon rule
    (1, 2, [(0, (N0, T1)), (0, (T2,))]),                                   # left recursion   b a^n
    (1, 2, [(0, (T1, N0, T2)), (0, ())]),                                  # a^n b^n
    (1, 3, [(0, (T1, N0, T2)), (0, (T3,))]),                               # a^n c b^n
    (1, 2, [(0, (T1, N0, T2, N0)), (0, ())]),                              # balanced brackets
    (3, 5, [(0, (N0, T1, N1)), (0, (N1,)), (1, (N1, T2, N2)), (1, (N2,)), (2, (T3, N0, T4)), (2, (T5,))]),   # E -> E+T | T ...
    (2, 3, [(0, (N1, T1, N0)), (0, (N1,)), (1, (T2,)), (1, (T3, N0, T3))]),  # right-nested lists
    (2, 2, [(0, (T1, N1)), (1, (T2, N0)), (1, ())]),                        # mutual recursion
    (3, 3, [(0, (N1,)), (1, (N2,)), (2, (T1, N0)), (2, (T2,)), (2, (T3, N2))]),   # unit-rule chains around the recursion
]


def gen(rnd, big=False):
    if big == "prefix":
        nnt = rnd.randint(3, 4)
        nt = rnd.randint(3, 5)
        T = lambda: ("t", rnd.randint(1, nt))
        rules = []
        lead = 1
        for _ in range(rnd.randint(2, 3)):
            tail = tuple(rnd.choice([T(), T(), ("n", rnd.randint(2, nnt - 1))]) for _ in range(rnd.randint(0, 2)))
            rules.append((0, (("n", lead),) + tail))
        if rnd.random() < 0.3:
            rules.append((0, (T(),)))
        for _ in range(rnd.randint(1, 2)):
            rules.append((lead, tuple(T() for _ in range(rnd.randint(1, 2)))))
        for a in range(2, nnt):
            for _ in range(rnd.randint(1, 3)):
                rules.append((a, rnd.choice([(), (T(),), (T(),), (T(), T()), (("n", lead),)])))
        return nnt, nt, rules
    if big == "wide":
        nnt = rnd.randint(2, 4)
        nt = rnd.randint(4, 5)
        rules = []
        for a in range(nnt):
            for _ in range(rnd.randint(1, 3)):
                k = rnd.choice([1, 1, 2, 2, 3, 3])
                rhs = tuple((("t", rnd.randint(1, nt)) if rnd.random() < 0.5 else ("n", rnd.randrange(nnt))) for _ in range(k))
                if (a, rhs) not in rules:
                    rules.append((a, rhs))
        return nnt, nt, rules
    if big:
        nnt = rnd.randint(4, 6)
        nt = rnd.randint(1, 2)
        rules = []
        for a in range(nnt):
            for _ in range(rnd.randint(1, 2)):
                q = rnd.random()
                if q < 0.2:
                    rhs = ()
                elif q < 0.55:
                    rhs = (("n", rnd.randrange(nnt)),)
                elif q < 0.8:
                    rhs = (("n", rnd.randrange(nnt)), ("t", rnd.randint(1, nt))) if rnd.random() < 0.5 else (("n", rnd.randrange(nnt)), ("n", rnd.randrange(nnt)))
                else:
                    rhs = tuple((("t", rnd.randint(1, nt)) if rnd.random() < 0.5 else ("n", rnd.randrange(nnt))) for _ in range(rnd.randint(1, 3)))
                if (a, rhs) not in rules or rnd.random() < 0.25:   # duplicated alternatives are legal (and ambiguous)
                    rules.append((a, rhs))
        return nnt, nt, rules
    nnt = rnd.randint(1, 3)
    nt = rnd.randint(1, 3)
    rules = []
    for a in range(nnt):
        for _ in range(rnd.randint(1, 3)):
            k = rnd.choice([0, 1, 1, 2, 2, 3, 3, 4, 5])
            rhs = tuple((("t", rnd.randint(1, nt)) if rnd.random() < 0.55 else ("n", rnd.randrange(nnt))) for _ in range(k))
            if (a, rhs) not in rules or rnd.random() < 0.25:   # duplicated alternatives are legal (and ambiguous)
                rules.append((a, rhs))
    if rnd.random() < 0.15:
        rules = [r for r in rules if r[0] != nnt - 1] or rules
    return nnt, nt, rules


def long_inputs(rnd, rules, nnt, maxt, k=2, depths=(20, 60, 150, 400)):
    """long words obtained from deep random derivations (nesting 20..400 levels, up to ~600 tokens) plus damaged copies of
    them, for grammars whose reference canonical LR(1) table (full mode) is conflict-free - the grammar is then unambiguous
    and the reference LR run decides membership and yields the unique tree; -> [(word, reference table)]"""
    terms = [("t", i) for i in range(1, maxt + 1)]
    if cyclic(rules, nnt):
        return []          # (a conflict-free table of a cyclic grammar is KF4 territory: no LR run is an oracle there)
    tab = lr.build(rules, nnt, 0, False, terms)
    if tab["conflicts"]:
        return []
    out = []
    for _ in range(k):
        sw = lr.sample_word(rnd, rules, nnt, 0, rnd.choice(depths), 600)
        if sw is None:
            return []
        w, tree = sw
        if len(w) < 8:
            continue
        if lr.parse(tab, w) != tree:
            raise AssertionError("reference LR run disagrees with the generating derivation")
        out.append((w, tab))
        d = list(w)
        q = rnd.random()
        pos = rnd.randrange(len(d))
        if q < 0.35:
            del d[pos]
        elif q < 0.7:
            d[pos] = rnd.randint(1, maxt)
        elif q < 0.85:
            d = d[:pos]
        else:
            d.insert(pos, rnd.randint(1, maxt))
        out.append((d, tab))
    return out


def judge_long(rules, prefix, longs, results, bad, part):
    for (w, tab), r in zip(longs, results):
        if prefix:
            mem = lr.prefix_members(tab, w)
        else:
            t = lr.parse(tab, w)
            mem = [(len(w), t)] if t is not None else []
        part["stats"]["long-parses-checked"] += 1
        part["stats"]["max-long-input"] = max(part["stats"]["max-long-input"], len(w))
        short = "%s... (%d tokens)" % (w[:12], len(w))
        if r is None:
            if mem:
                bad.append(("rejects-member", "input %s rejected although its prefix of length %d is in the language" % (short, mem[0][0])))
        else:
            part["stats"]["long-accepts"] += 1
            if not mem:
                bad.append(("accepts-nonmember", "input %s accepted but no %s is in the language" % (short, "prefix" if prefix else "such word")))
            elif len(mem) > 1:
                bad.append(("no-conflict-for-prefix-ambiguity", "two prefixes of %s are words, yet no conflict was reported" % short))
            elif cfg.fold(mem[0][1]) != r:
                bad.append(("wrong-value", "input %s: value differs from the fold of the unique tree" % short))
        if bad:
            return


def cyclic(rules, nnt):
    first, nullable = lr.first_sets(rules, nnt)
    edges = {i: set() for i in range(nnt)}
    for l, r in rules:
        for k, s in enumerate(r):
            if s[0] == "n" and all(x in nullable for x in r[:k] + r[k + 1:]):
                edges[l].add(s[1])
    for a in range(nnt):
        seen = set()
        st = list(edges[a])
        while st:
            b = st.pop()
            if b == a:
                return True
            if b in seen:
                continue
            seen.add(b)
            st += list(edges[b])
    return False


def _work(spec):
    part = harness.new_partial()
    rnd = common.rng(spec["seed"], "C13", spec["chunk"])
    metas = []
    cases = []
    L_ = spec["L"]
    for g in range(spec["n"]):
        classic = spec.get("big") == "classic"
        nnt, nt, rules = CLASSIC[g % len(CLASSIC)] if classic else gen(rnd, spec.get("big", False))
        prefix = rnd.randint(0, 1)
        maxt = max([s[1] for l, r in rules for s in r if s[0] == "t"] + [0])
        lim = L_ if maxt <= 2 else min(L_, 5 if L_ <= 5 else 6)
        if maxt >= 4:
            lim = min(lim, 4 if L_ <= 4 else 5)
        inputs = [list(w) for n in range(0, lim + 1) for w in itertools.product(range(1, maxt + 1), repeat=n)] if maxt else [[]]
        opts = [("g", "%d %d %d" % (nnt, prefix, 0))]
        for l, r in rules:
            syms = [x[0] + str(x[1]) for x in r]
            if rnd.random() < 0.15:
                # the same rule written with explicit epsilon symbols (single ones and runs of two or three, anywhere in the
                # right-hand side): they derive nothing and contribute no value
                for _e in range(rnd.randint(1, 3)):
                    pos = rnd.randint(0, len(syms))
                    syms[pos:pos] = ["e0"] * rnd.choice([1, 2, 2, 3])
            opts.append(("r", "%d %d %s" % (l, len(syms), " ".join(syms))))
        longs = long_inputs(rnd, rules, nnt, maxt, 6 if classic else 2, [20, 60, 150, 400, 1200] if classic else [20, 60, 150, 400]) \
            if maxt and (classic or rnd.random() < 0.7) else []
        for w in inputs:
            opts.append(("i", "%d %s" % (len(w), " ".join(map(str, w)))))
        for w, _t in longs:
            opts.append(("i", "%d %s" % (len(w), " ".join(map(str, w)))))
        cases.append({"mode": "lr", "opts": opts})
        metas.append((nnt, nt, rules, prefix, inputs, maxt, longs))
    if spec.get("chunk") == 400000:
        # the KF4 witness itself, in every run: N4 => N4 next to the unproductive N3
        wr = [(0, (T2, ("n", 4), ("n", 3))), (1, (N1, T2)), (2, (T2, T2)), (3, (N2, N1)), (4, (N2,)), (4, (("n", 4),))]
        wi = [[2, 2], [2, 2, 2, 2]]
        cases.append({"mode": "lr", "opts": [("g", "5 0 0")] + [("r", "%d %d %s" % (l, len(r), " ".join(x[0] + str(x[1]) for x in r))) for l, r in wr]
                      + [("i", "%d %s" % (len(w), " ".join(map(str, w)))) for w in wi]})
        metas.append((5, 2, wr, 0, wi, 2, []))
    # KF4: on a conflict-free table of a grammar with a derivation cycle the LR driver can reduce for ever without consuming input.
    # Such grammars (cyclic, reference table of the same mode conflict-free) run in a batch of their own with a 10 s CPU watchdog
    # per grammar instead of the 600 s one, so the known finding costs seconds, not twenty minutes
    # Cyclic grammars whose reference table does have conflicts get the same short watchdog, but a hang there is an ordinary
    # hang violation (seed C13-k: a conflict that is no longer reported lets the driver loop on them, 600 s apiece otherwise)
    risky, risky2 = [], []
    for k, (nnt, nt, rules, prefix, inputs, maxt, longs) in enumerate(metas):
        if cyclic(rules, nnt):
            if lr.build(rules, nnt, 0, bool(prefix), [("t", i) for i in range(1, max(maxt, 1) + 1)])["conflicts"] == 0:
                risky.append(k)
            else:
                risky2.append(k)
    outs = [None] * len(cases)
    normal = [k for k in range(len(cases)) if k not in set(risky) | set(risky2)]
    res_n, _ = common.run_batch([cases[k] for k in normal])
    for k, o in zip(normal, res_n):
        outs[k] = o
    if risky2:
        res_c, _ = common.run_batch([cases[k] for k in risky2], case_cpu=10)
        for k, o in zip(risky2, res_c):
            outs[k] = o
            part["stats"]["cyclic-grammars-with-reference-conflict"] += 1
    if risky:
        res_r, _ = common.run_batch([cases[k] for k in risky], case_cpu=10)
        for k, o in zip(risky, res_r):
            outs[k] = o
            part["stats"]["conflict-free-cyclic-grammars"] += 1
            if "timeout" in o:
                o["kf4"] = True
    for (nnt, nt, rules, prefix, inputs, maxt, longs), case, o in zip(metas, cases, outs):
        part["evals"] += 1
        slim = {"mode": "lr", "opts": [list(x) for x in case["opts"] if x[0] != "i"], "rules": rules, "prefix": prefix}
        if o.get("kf4"):
            part["violations"].append({"signature": KF4_SIG, "message": "the LR driver does not come back (10 s CPU, twice) on an input of the conflict-free cyclic grammar %s prefix=%d"
                                       % (rules, prefix), "case": slim})
            continue
        if common.abnormal(ID, {"mode": "lr", "opts": case["opts"][:12]}, o, part, "in the LR generator / parser"):
            continue
        bad = []
        first, nullable = lr.first_sets(rules, nnt)
        for i in range(nnt):
            e = {"t%d" % s[1] for s in first[("n", i)]} | ({"e"} if ("n", i) in nullable else set())
            if set(o["first"][i]) != e:
                bad.append(("first-set", "FIRST(N%d) = %s, textbook %s" % (i, sorted(o["first"][i]), sorted(e))))
        conf = o["conflicts"]
        orc = cfg.Oracle(rules, nnt)
        ambiguous = False
        accepts = 0
        cyc = cyclic(rules, nnt)
        res = o["results"]
        for idx, w in enumerate(inputs):
            cands = [w[:k] for k in range(len(w) + 1)] if prefix else [w]
            trees = [(c, orc.trees(c, 0)) for c in cands]
            if any(len(t) >= 2 for c, t in trees):
                ambiguous = True
            if conf == 0:
                part["stats"]["parses-checked"] += 1
                r = res[idx]
                inl = [(c, t) for c, t in trees if t]
                if r is None:
                    if inl:
                        bad.append(("rejects-member", "input %s rejected although %s is in the language" % (w, inl[0][0])))
                else:
                    accepts += 1
                    if not inl:
                        bad.append(("accepts-nonmember", "input %s accepted with %s but no %s is in the language" % (w, r, "prefix" if prefix else "such word")))
                    elif len(inl) > 1:
                        bad.append(("no-conflict-for-prefix-ambiguity", "two prefixes of %s are words, yet no conflict was reported" % w))
                    elif cfg.fold(inl[0][1][0]) != r:
                        bad.append(("wrong-value", "input %s: value %s, fold of the unique tree %s" % (w, r, cfg.fold(inl[0][1][0]))))
            if len(bad) > 3:
                break
        if conf == 0 and longs and not bad:
            judge_long(rules, prefix, longs, res[len(inputs):], bad, part)
        if ambiguous and conf == 0:
            bad.append(("ambiguous-without-conflict", "some input has two derivation trees but table generation reported no conflict"))
        if bad:
            part["violations"].append({"signature": bad[0][0], "message": "%s ; grammar %s prefix=%d" % ("; ".join(b[1] for b in bad[:3]), rules, prefix),
                                       "case": slim})
            continue
        part["stats"]["grammars-conflict-free" if conf == 0 else "grammars-with-conflict"] += 1
        part["stats"]["accepts"] += accepts
        part["stats"]["ambiguous"] += 1 if ambiguous else 0
        part["stats"]["cyclic"] += 1 if cyc else 0
        part["stats"]["prefix-mode"] += prefix
        if accepts or conf:
            part["nontrivial"].append(harness.chash([rules, prefix]))
        if len(part["samples"]) < 1 and accepts > 3 and conf == 0:
            part["samples"].append({"rules": [[l, [x[0] + str(x[1]) for x in r]] for l, r in rules], "prefix_mode": prefix,
                                    "inputs": len(inputs), "accepted": accepts, "first": o["first"]})
    return part




def work(spec):
    part = _work(spec)
    for v in part["violations"]:
        if isinstance(v.get("case"), dict):
            v["case"]["spec"] = spec
    return part


def replay(case):
    """re-run the chunk the stored case came from and report the violations with the same signature family"""
    if "spec" not in case:
        return []
    from .. import harness as _h
    if hasattr(sys.modules[__name__], "plan") and case["spec"].get("kind") in ("seq", "conc"):
        plan("quick", case["spec"].get("seed", 1))   # C18: baselines are computed in plan()
    return _work(case["spec"])["violations"]
