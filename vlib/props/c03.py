"""C03 - emitted bytecode is well-formed, so the VM never leaves its own memory."""
from .. import harness
from ..gen import layouts, macrosets, mutate, programs
from ..ref import bytecode, pipeline
from . import common

ID = "C03"
LEVEL = "exploration"
TECHNIQUE = "static bytecode verifier by control-flow reachability (R8) on every accepted program + inline operand-in-frame monitor on hooked VM state before every executed instruction, under ASan+UBSan"
FLAVOURS = [("asan", "generated")]
RULE = ("generated programs with unusual declarations boosted (repeated parameter names, OUT equal to a parameter, no parameters, no body "
        "variables, redefinition, uncalled programs, nested calls as arguments), library-macro programs, sources with one dimension past 2^8 (registers, "
        "definitions, parameters, labels, nesting, call depth, identifier length, files, macro slots/arguments/uses), and token-mutated programs that the "
        "compiler still accepts; every accepted program is (1) verified statically on all paths: root PREPARE/HALT, successors in range, routines "
        "disjoint, consistent (count, stack map) per entry, every register operand < frame size, PREPARE ARG* EXEC shape, ARG count = source arity, "
        "no fall-off, RET unreachable from the root; (2) executed with every operand checked against the current activation's (base,size) "
        "before each instruction; non-trivial = contains >= 1 call or jump; distinct by SHA-1 of the files")
ASSUMPTIONS = ["R8 (vlib/ref/bytecode.py) states the structural rules of the property; stack map i belongs to definition i (maps are emitted in definition order, root last)",
               "hook 1 exposes the activation geometry for the dynamic cross-check"]


def plan(tier, seed):
    n = 4000 if tier == "quick" else 80000
    specs = [{"seed": seed, "chunk": i, "n": 80} for i in range(n // 80)]
    # sources with one dimension past 2^8 (registers, definitions, parameters, labels, nesting, call depth, files, macro slots ...)
    specs += [{"seed": seed, "chunk": 500000 + i, "n": 0, "scale": i} for i in range(32 if tier == "quick" else 80)]
    return specs


def unusual_program(r):
    o = programs.Opts(max_defs=4, max_params=3, p_redefine=0.15, call_depth=3)
    g = programs.Gen(r, o)
    p = g.program()
    for d in p["defs"]:
        q = r.random()
        if q < 0.12 and len(d["params"]) >= 2:
            # repeated parameter names in every arrangement: first again later, the last two equal, all equal; with OUT = that parameter
            # and a body that mentions nothing else, the frame is smaller than the number of arguments
            n_ = len(d["params"])
            how = r.randrange(4)
            if how == 0:
                d["params"][r.randrange(1, n_)] = d["params"][0]
            elif how == 1:
                d["params"][n_ - 1] = d["params"][n_ - 2]
            elif how == 2:
                d["params"] = [d["params"][0]] * n_
            else:
                d["params"] = [d["params"][0]] * n_
                d["out"] = d["params"][0]
                d["body"] = [{"k": "assign", "var": d["params"][0], "val": ("var", d["params"][0])}]
        elif q < 0.3 and d["params"]:
            d["out"] = r.choice(d["params"])                                     # OUT = parameter
        elif q < 0.4:
            d["body"] = [{"k": "stop"}] if r.random() < 0.5 else [{"k": "goto", "target": "Lq", "label": "Lq"}]  # no variables
    return p


def work(spec):
    part = harness.new_partial()
    r = common.rng(spec["seed"], "C03", spec["chunk"])
    srcs = []
    if "scale" in spec:
        all_ = programs.scale_sources(r, small=spec["scale"] < 16, large=16 <= spec["scale"] < 32)
        srcs.append(all_[spec["scale"] % len(all_)])
        if spec["scale"] % 8 == 0:
            srcs += programs.no_variable_sources(r)     # root scripts without any variable: PREPARE with count 0, empty stack map
    for k in range(spec["n"]):
        m = k % 8
        if m < 5:
            p = unusual_program(r)
            lines = programs.to_lines(p, programs.Speller(r))
            if m == 4:
                files, main = layouts.split_tokens([t for l in lines for t in l], r)
            else:
                files, main = {"main": layouts.canonical(lines)}, "main"
            srcs.append((files, main, "unusual"))
        elif m == 5:
            files, main, _ = macrosets.library_program(r)
            srcs.append((files, main, "libmacros"))
        else:
            p = unusual_program(r)
            toks = programs.all_tokens(p, programs.Speller(r))
            toks = mutate.random_edits(toks, r, r.randint(1, 3), mutate.LANG_VOCAB)
            srcs.append(({"main": " ".join(toks)}, "main", "mutant"))
    cases = [{"mode": "run", "main": m, "files": f, "opts": [("budget", 20000), ("program", 1), ("abandon", 20)]} for f, m, _ in srcs]
    outs, _ = common.run_batch(cases)
    for (files, main, kind), case, r_ in zip(srcs, cases, outs):
        part["evals"] += 1
        if common.abnormal(ID, case, r_, part):
            continue
        if not r_["ok"]:
            part["stats"]["rejected:" + kind] += 1
            continue
        f = pipeline.front(files, main)
        arity = None
        if f.verdict and f.parser is not None:
            arity = {i: len(d["params"]) for i, d in enumerate(f.parser.defs)}
            if len(r_["maps"]) != len(f.parser.defs) + 1:
                arity = None
        probs, info = bytecode.verify(r_["code"], r_["maps"], arity)
        if probs:
            part["violations"].append({"signature": "static:" + " ".join(probs[0].split(" ")[:3]).rstrip("0123456789 "),
                                       "message": "structural rule violated: " + "; ".join(probs[:4]), "case": common.slim_case(case)})
            continue
        m = r_.get("monitor")
        if m and m.startswith("C03"):
            part["violations"].append({"signature": "dynamic:" + " ".join(m.split(" ")[1:3]),
                                       "message": "operand outside the frame it addresses (verifier found nothing!): " + m,
                                       "case": common.slim_case(case)})
            continue
        part["stats"]["accepted:" + kind] += 1
        part["stats"]["instructions-verified"] += len(r_["code"])
        part["stats"]["call-sites-verified"] += info["ncalls"]
        part["stats"]["jumps-verified"] += info["njumps"]
        part["stats"]["routines"] += len(info["routines"])
        part["stats"]["instructions-executed-under-monitor"] += r_["boundaries"]
        if f.parser is not None and f.parser.dup_params:
            part["stats"]["accepted-with-repeated-parameter"] += 1
        if info["ncalls"] or info["njumps"]:
            part["nontrivial"].append(harness.chash(files))
        if len(part["samples"]) < 1 and info["ncalls"] > 3:
            part["samples"].append({"files": files, "instructions": len(r_["code"]), "call_sites": info["ncalls"],
                                    "routines": sorted(info["routines"].keys())})
    return part


def replay(case):
    part = harness.new_partial()
    c = {"mode": "run", "main": case["main"], "files": case["files"], "opts": [("budget", 20000), ("program", 1), ("abandon", 20)]}
    outs, _ = common.run_batch([c])
    r_ = outs[0]
    if common.abnormal(ID, c, r_, part) or not r_["ok"]:
        return part["violations"]
    probs, info = bytecode.verify(r_["code"], r_["maps"])
    if probs:
        part["violations"].append({"signature": "static", "message": "; ".join(probs[:4]), "case": case})
    elif r_.get("monitor", None) and r_["monitor"].startswith("C03"):
        part["violations"].append({"signature": "dynamic", "message": r_["monitor"], "case": case})
    return part["violations"]
