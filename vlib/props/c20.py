"""C20 - machine arithmetic is always defined and values stay natural numbers."""
from .. import harness
from ..gen import layouts, programs
from ..ref import pipeline
from . import common

ID = "C20"
LEVEL = "exploration"
TECHNIQUE = "UBSan (-fno-sanitize-recover) + inline word-range shadow monitor at every instruction boundary + cross-build/repeat determinism + reference interpreter for in-range runs; literal-range oracle"
FLAVOURS = [("asan", "generated"), ("plain", "generated")]
INT_MAX = 2 ** 31 - 1
RULE = ("(a) boundary programs: largest literal, doubling loops, x + c / x - c with c near 2^31, chains through calls - run under UBSan "
        "with a monitor checking every data word in [0, 2^31-1] after every instruction, executed twice in one process and once more in "
        "the unsanitised build (digests must agree), compared with the reference interpreter while values stay in range; "
        "(b) numeric literals of 1-40 digits around 2^31-2..2^31, 2^32, 2^63, 2^64 in every literal position (assignment, IF constant, "
        "call argument, +/- sugar constant, PRIO, $n): >= 2^31-1 must give a range error, smaller ones must not; "
        "non-trivial = (a) some value > 2^30 was stored or an addition saturated, (b) literal >= 2^16; distinct by SHA-1 of the source")
ASSUMPTIONS = ["which value an overflowing addition yields is not prescribed - only that it is defined, in range and reproducible",
               "R5 over unbounded integers decides the in-range part; out-of-range executions are judged by the monitors only"]

EDGE = [2 ** 31 - 3, 2 ** 31 - 2, 2 ** 31 - 1, 2 ** 31, 2 ** 31 + 1, 2 ** 32 - 1, 2 ** 32, 2 ** 32 + 5, 2 ** 63 - 1, 2 ** 63, 2 ** 64,
        2 ** 64 + 1, 10 ** 20, 10 ** 39, 65536, 99999, 2 ** 30, 1, 0, 7]


def plan(tier, seed):
    n = 1200 if tier == "quick" else 24000
    specs = [{"kind": "run", "seed": seed, "chunk": i, "n": 60} for i in range(n // 60)]
    m = 800 if tier == "quick" else 16000
    specs += [{"kind": "lit", "seed": seed, "chunk": i, "n": 200} for i in range(m // 200)]
    return specs


def boundary_program(r):
    q = r.random()
    big = r.choice(programs.BOUNDARY + [2 ** 31 - 2, 2 ** 31 - 2])
    if q < 0.25:
        # doubling loop
        n = r.randint(28, 40)
        return ("x := 1 ;\nn := %d ;\nLOOP n DO\ny := x ;\nLOOP y DO\nx := x + 1\nEND\nEND" % n) if r.random() < 0.3 else \
            ("PROGRAM dbl IN a OUT a DO\nb := a ;\nLOOP b DO\na := a + %d\nEND\nEND\nx := %d ;\nn := %d ;\nLOOP n DO\nx := RUN dbl WITH x END\nEND"
             % (r.choice([1, 1000, 65536, big]), r.choice([1, 3, 1000]), r.randint(2, 6)))
    if q < 0.5:
        c = r.choice([big, 2 ** 31 - 2, 2 ** 30, 2 ** 31 - 2 - r.randint(0, 5)])
        return "x := %d ;\ny := x + %d ;\nz := y - %d ;\nw := z + %d ;\nu := w - %d" % (
            r.choice([big, 3, 2 ** 30]), c, r.choice([c, 1, big]), r.choice([c, 2]), r.choice([big, 1]))
    if q < 0.7:
        c = r.choice([big, 2 ** 30, 2 ** 31 - 2])
        return ("PROGRAM f IN a, b OUT a DO\na := a + %d ;\nb := b - %d ;\na := a + %d\nEND\nx := %d ;\n"
                "y := RUN f WITH x, RUN f WITH x, x END END ;\nz := RUN f WITH y, 0 END" % (c, c, r.choice([0, 1, c]), r.choice([big, 5])))
    o = programs.Opts(boundary=True, max_defs=2)
    return layouts.canonical(programs.to_lines(programs.Gen(r, o).program()))


def work_run(spec, part):
    r = common.rng(spec["seed"], "C20run", spec["chunk"])
    items = []
    for _ in range(spec["n"]):
        text = boundary_program(r)
        files = {"main": text}
        f = pipeline.front(files, "main")
        it = {"files": files, "front": f, "status": None}
        if f.verdict and not f.excluded:
            st, interp = pipeline.run(f, 30000)
            it["status"], it["interp"] = st, interp
        it["case"] = {"mode": "run", "main": "main", "files": files,
                      "opts": [("budget", 400000), ("program", 0), ("repeat", 2)]}
        items.append(it)
    cases = [it["case"] for it in items]
    outs, _ = common.run_batch(cases)
    pouts, _ = common.run_batch(cases, flavour="plain")
    for it, case, r_, p_ in zip(items, cases, outs, pouts):
        part["evals"] += 1
        if common.abnormal(ID, case, r_, part, "(sanitised build)"):
            continue
        if common.abnormal(ID, case, p_, part, "(plain build)"):
            continue
        if not r_["ok"]:
            part["stats"]["run:rejected"] += 1
            continue
        m = r_.get("monitor")
        if m and m.startswith("C20"):
            part["violations"].append({"signature": "word-out-of-range", "message": "stored value outside [0, 2^31-1]: " + m,
                                       "case": common.slim_case(case)})
            continue
        if r_.get("execute_agrees") is False:
            part["violations"].append({"signature": "execute-differs-from-single-steps", "message":
                                       "VM::execute() ends in another state than the same program driven by executeSingle(): %s vs %s"
                                       % (r_.get("execute_acts"), r_["acts"]), "case": common.slim_case(case)})
            continue
        if r_.get("nondeterministic"):
            part["violations"].append({"signature": "nondeterministic-run", "message": "two runs of the same program in one process differ",
                                       "case": common.slim_case(case)})
            continue
        if r_["digest"] != p_.get("digest") or r_["acts"] != p_.get("acts"):
            part["violations"].append({"signature": "builds-disagree", "message": "sanitised and plain build produce different results: %s vs %s"
                                       % (r_["acts"], p_.get("acts")), "case": common.slim_case(case)})
            continue
        vals = [v for a in r_["acts"] for v in a[1].values()]
        if any(v < 0 or v > INT_MAX for v in vals):
            part["violations"].append({"signature": "final-value-out-of-range", "message": str(r_["acts"]), "case": common.slim_case(case)})
            continue
        part["stats"]["run:boundaries-checked"] += r_["boundaries"]
        status = it["status"]
        if status == "done" and r_["done"]:
            exp = it["interp"].final()
            bad = []
            if len(exp) != len(r_["acts"]):
                bad.append("activation count")
            else:
                for (rn, rv), (_, ov) in zip(exp, r_["acts"]):
                    for k, v in rv.items():
                        if ov.get(k) != v:
                            bad.append("%s=%s reference %d" % (k, ov.get(k), v))
            if bad:
                part["violations"].append({"signature": "in-range-values-differ", "message": "; ".join(bad[:5]),
                                           "case": common.slim_case(case), "expected": exp, "observed": r_["acts"]})
                continue
            part["stats"]["run:in-range-agree"] += 1
            if it["interp"].maxval > 2 ** 30:
                part["nontrivial"].append(harness.chash(it["files"]))
        elif status == "range":
            part["stats"]["run:left-range(saturating)"] += 1
            part["nontrivial"].append(harness.chash(it["files"]))
            if len(part["samples"]) < 1:
                part["samples"].append({"source": it["files"]["main"], "final": r_["acts"], "note": "reference leaves the word range; VM result defined, in range, reproducible"})
        else:
            part["stats"]["run:other"] += 1


def literal_cases(r, n):
    """-> list of (text, literal value, position, expect_range_error, otherwise_valid)"""
    out = []
    for _ in range(n):
        base = r.choice(EDGE)
        v = max(0, base + r.choice([0, 0, 0, -1, 1, -2, 2]))
        if r.random() < 0.15:
            v = int("".join(r.choice("123456789") + "".join(r.choice("0123456789") for _ in range(r.randint(0, 39)))))
        pos = r.choice(["assign", "if", "arg", "inc", "dec", "prio", "ins", "nested-arg", "loopinit", "inc-inplace", "dec-inplace", "inc-in-callee"])
        L_ = str(v)
        if pos == "assign":
            t = "x := %s" % L_
        elif pos == "if":
            t = "IF x = %s THEN GOTO l ;\nl : x := 1" % L_
        elif pos == "arg":
            t = "PROGRAM f IN a DO\nx0 := a\nEND\nx := RUN f WITH %s END" % L_
        elif pos == "nested-arg":
            t = "PROGRAM f IN a, b DO\nx0 := a\nEND\nx := RUN f WITH 1, RUN f WITH %s, 2 END END" % L_
        elif pos == "inc":
            t = "x := y + %s" % L_
        elif pos == "dec":
            t = "y := 5 ;\nx := y - %s" % L_
        elif pos == "inc-inplace":
            t = "x := 2 ;\nx := x + %s" % L_
        elif pos == "dec-inplace":
            t = "x := 7 ;\nLOOP x DO\nx := x - %s\nEND" % L_
        elif pos == "inc-in-callee":
            t = "PROGRAM f IN a OUT a DO\na := a + %s\nEND\nx := RUN f WITH 1 END" % L_
        elif pos == "loopinit":
            t = "x := %s ;\ny := x - %s" % (L_, L_)
        elif pos == "prio":
            t = "DEFINE PRIO %s FOO <V> AS $0 END DEFINE\nx := FOO 1" % L_
        else:
            t = "DEFINE FOO <V> AS $%s END DEFINE\nx := FOO 1" % L_
        out.append((t, v, pos))
    return out


def work_lit(spec, part):
    r = common.rng(spec["seed"], "C20lit", spec["chunk"])
    items = literal_cases(r, spec["n"])
    cases = [{"mode": "run", "main": "main", "files": {"main": t}, "opts": [("budget", 2000), ("program", 0)]} for t, _, _ in items]
    outs, _ = common.run_batch(cases)
    # the same sources through the lower-level entry points: parse once, generate twice (a range error must not depend on
    # what the generator did to the tree the first time)
    scases = [{"mode": "compile", "main": "main", "files": {"main": t}, "opts": [("program", 0), ("stages", 1)]} for t, _, _ in items]
    souts, _ = common.run_batch(scases)
    for (text, v, pos), case, r_, sc, so in zip(items, cases, outs, scases, souts):
        part["evals"] += 1
        if common.abnormal(ID, case, r_, part, "with literal %d in position %s" % (v, pos)):
            continue
        if common.abnormal(ID, sc, so, part, "with literal %d in position %s (parse + gen twice)" % (v, pos)):
            continue
        if so.get("stages", [1, 1])[0] != 1:
            part["violations"].append({"signature": "literal-range:%s:regen" % pos, "message":
                                       "literal %d in position '%s': generating code a second time from the same tree gives another result" % (v, pos),
                                       "case": common.slim_case(sc)})
            continue
        range_err = any("out of range" in e[1] for e in r_["errors"])
        want = v >= INT_MAX
        problems = []
        if want and not range_err:
            problems.append("literal %d >= 2^31-1 in position '%s' accepted without a range error (ok=%s, errors=%s)"
                            % (v, pos, r_["ok"], [e[1][:60] for e in r_["errors"][:3]]))
        if want and r_["ok"]:
            problems.append("compile marked correct")
        if not want and range_err:
            problems.append("literal %d < 2^31-1 in position '%s' rejected for range" % (v, pos))
        if not want and pos != "ins" and not r_["ok"]:
            problems.append("valid program with in-range literal %d in position '%s' rejected: %s" % (v, pos, [e[1][:60] for e in r_["errors"][:2]]))
        if pos == "ins" and not want and v == 0 and not r_["ok"]:
            problems.append("valid use of $0 rejected: %s" % [e[1][:60] for e in r_["errors"][:2]])
        if pos == "ins" and not want and v >= 1 and r_["ok"]:
            problems.append("$%d beyond the single slot accepted" % v)
        if problems:
            part["violations"].append({"signature": "literal-range:%s:%s" % (pos, "big" if want else "small"),
                                       "message": "; ".join(problems), "case": common.slim_case(case)})
            continue
        part["stats"]["lit:%s:%s" % (pos, "rejected-for-range" if want else "accepted")] += 1
        if v >= 65536:
            part["nontrivial"].append(harness.chash(text))
        if len(part["samples"]) < 2 and want and pos == "dec":
            part["samples"].append({"source": text, "errors": [e[1] for e in r_["errors"]]})


def work(spec):
    part = harness.new_partial()
    if spec["kind"] == "run":
        work_run(spec, part)
    else:
        work_lit(spec, part)
    return part


def replay(case):
    part = harness.new_partial()
    c = {"mode": "run", "main": case["main"], "files": case["files"], "opts": case["opts"]}
    outs, _ = common.run_batch([c])
    r_ = outs[0]
    if common.abnormal(ID, c, r_, part):
        return part["violations"]
    m = r_.get("monitor")
    if m and m.startswith("C20"):
        part["violations"].append({"signature": "word-out-of-range", "message": m, "case": case})
    return part["violations"]
