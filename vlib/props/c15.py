"""C15 - include resolution terminates, detects cycles and reports what is missing."""
import itertools

from .. import harness
from ..ref import includes, lexer as L
from . import common

ID = "C15"
LEVEL = "exploration"
TECHNIQUE = "reference-model monitor: include-graph model (R2, active-file stack) vs Theo::scan and Theo::compile under ASan+UBSan; exhaustive small include graphs"
FLAVOURS = [("asan", "generated")]
RULE = ("every include graph over N files (main + others) with 0-2 include directives per file, each targeting any of the files, "
        "itself, a missing name or nothing (directive without quoted name), plus an absent main file - enumerated exhaustively "
        "(thorough: N=4 up to renaming of the non-main files) - and random graphs over 5-8 files with up to 4 directives, and graphs of unusual size (chains 130-300 files deep ending in an include of any ancestor / a missing file / a finished sibling, "
        "one file included 300 times in a row, a file including 300 others); every file "
        "carries unique marker identifiers so the token stream shows which inclusions happened; scan errors "
        "(type,file,line,request), tokens, and compile's file_requests are compared with the model; "
        "non-trivial = at least one include directive; distinct by SHA-1 of the file map")
ASSUMPTIONS = ["R2 (vlib/ref/includes.py): active-file stack model written from the property text and scan.hpp",
               "termination is observed through the per-case CPU watchdog (a hang is a violation)",
               "not judged: tokens directly following an include without quoted name"]


def body(name, dirs, marker=None, r=None):
    marker = marker or name
    s = marker + "1"
    for j, d in enumerate(dirs):
        if d == EOF_DIR:
            return s + "\n" + (r.choice(["include", "Include", "INCLUDE"]) if r is not None else "include") + ("" if j % 2 else "  // nothing follows\n")
        kw = "include"
        sep = "\n"
        if r is not None:
            # every documented spelling; directives sharing a line; decoys that are NOT directives
            kw = r.choice(["include", "Include", "INCLUDE"])
            sep = r.choice(["\n", "\n", " ", "\n// include \"decoy_missing\"\n", "\n\"include\" ", "\ninclud "])
        s += sep + kw + " " + ('"%s"' % d if d else "") + " " + marker + str(j + 2)
    return s


EOF_DIR = "<eof>"   # a bare `include` as the very last thing in the file


def options(targets):
    o = [()] + [(t,) for t in targets] + [(t, u) for t in targets for u in targets]
    return o + [(EOF_DIR,)] + [(t, EOF_DIR) for t in targets]


def plan(tier, seed):
    specs = []
    if tier == "quick":
        names = ["m", "a", "b"]
    else:
        names = ["m", "a", "b", "c"]
    targets = names + ["zz", None]
    opts = options(targets)
    for i in range(len(opts)):
        specs.append({"kind": "exh", "names": names, "mi": i, "seed": seed, "canon": tier != "quick"})
    specs.append({"kind": "absent", "names": names, "seed": seed})
    nrand = 2000 if tier == "quick" else 40000
    for i in range(nrand // 500):
        specs.append({"kind": "rand", "chunk": i, "n": 500, "seed": seed})
    for i in range(2 if tier == "quick" else 12):
        specs.append({"kind": "deep", "chunk": i, "seed": seed})
    return specs


def gen(spec):
    out = []
    if spec["kind"] == "exh":
        names = spec["names"]
        targets = names + ["zz", None]
        opts = options(targets)
        dm = opts[spec["mi"]]
        others = names[1:]
        for ds in itertools.product(opts, repeat=len(others)):
            if spec["canon"]:
                # up to renaming of the non-main files: keep the lexicographically least relabelling
                if not _canonical(names, dm, ds):
                    continue
            files = {"m": body("m", dm)}
            for n, d in zip(others, ds):
                files[n] = body(n, d)
            out.append((files, "m"))
    elif spec["kind"] == "absent":
        names = spec["names"]
        opts = options(names + ["zz", None])
        for d in opts:
            out.append(({"a": body("a", d)}, "m"))
        out.append(({}, "m"))
        out.append(({"a": "x := 1"}, ""))
        out.append(({"": 'k1 include "" k2'}, ""))
    elif spec["kind"] == "deep":
        # graphs of unusual size: chains 130-300 files deep that end in an include of an ancestor (every position of the active
        # stack), of a missing file, of a finished sibling; one file included 300 times in a row; a file including 300 others
        r = common.rng(spec["seed"], "C15deep", spec["chunk"])
        for _ in range(6):
            n = r.choice([130, 260, 300])
            names = ["d%d" % i for i in range(n)]
            files = {}
            for i, nm in enumerate(names):
                ds = [names[i + 1]] if i + 1 < n else []
                q = r.random()
                if i + 1 == n or q < 0.05:
                    ds.append(r.choice([names[r.randrange(0, i + 1)], names[0], nm, "missing%d" % i, "sib", None]))
                files[nm] = body(nm, ds, marker="k%d_" % i)
            files["sib"] = "s1 s2"
            files[names[0]] = 'include "sib" ' + files[names[0]]
            out.append((files, names[0]))
        n = r.choice([260, 300])
        out.append(({"m": "a1 " + " ".join('include "x"' for _ in range(n)) + " a2", "x": "q1\nq2"}, "m"))
        out.append(({"m": "a1 " + "\n".join('include "x"' for _ in range(n)) + " a2", "x": 'q1 include "m" q2 include "y"', "y": 'include "x" r'}, "m"))
        files = {"w%d" % i: "t%d" % i if i % 7 else 't%d include "w%d" include "m"' % (i, (i * 3) % n) for i in range(n)}
        files["m"] = " ".join('include "w%d"' % i for i in range(n)) + ' include "nope"'
        out.append((files, "m"))
    else:
        r = common.rng(spec["seed"], "C15rand", spec["chunk"])
        for _ in range(spec["n"]):
            n = r.randint(5, 8)
            style = r.choice(["f%d", "dir/sub/file_%d.theo", "a long name with spaces %d", "%d", "dir\\sub\\file_%d.theo", "back\\%d\\", "gr\xf6\xdfe %d.theo",
                              "\xff%d\x80", "CASE"])
            names = [style % i for i in range(n)] if style != "CASE" else ["inc", "Inc", "INC", "iNc", "inC", "InC", "INc", "iNC"][:n]
            missing_ = r.choice(["missing1", "some/missing file.theo", "fehlt \xe4%d" % r.randint(0, 9), "not\\there", "MISSING1"])
            files = {}
            for i, nm in enumerate(names):
                k = r.randint(0, 4)
                ds = [r.choice(names + [nm, "missing1", missing_, None]) for _ in range(k)]
                if r.random() < 0.15:
                    ds.append(EOF_DIR)
                files[nm] = body(nm, ds, marker="k%d_" % i, r=r)
            main = r.choice(names + ["nomain"] if r.random() < 0.1 else names)
            out.append((files, main))
    return out


def _canonical(names, dm, ds):
    others = names[1:]

    def norm(dm_, ds_):
        f = lambda d: tuple("\x00" if t is None else t for t in d)
        return (f(dm_), tuple(f(d) for d in ds_))
    key0 = norm(dm, ds)
    for perm in itertools.permutations(others):
        if list(perm) == others:
            continue
        ren = dict(zip(others, perm))
        rn = lambda t: ren.get(t, t)
        dm2 = tuple(rn(t) for t in dm)
        ds2 = [None] * len(others)
        for n, d in zip(others, ds):
            ds2[others.index(ren[n])] = tuple(rn(t) for t in d)
        if norm(dm2, ds2) < key0:
            return False
    return True


def _lt(a, b):
    return a < b


def errors_match(engine_errors, res):
    """same multiset of (type, file, request); every reported line lies on the directive it belongs to (between the
    include keyword and the end of the token after it) - the property does not fix the line more precisely"""
    groups = {}
    for (t, f, line, req), span in zip(res.errors, res.error_spans):
        groups.setdefault((t, f, req), []).append(span)
    got = {}
    for e in engine_errors:
        got.setdefault((e[0], e[2], e[4]), []).append(e[3])
    if set(groups) != set(got):
        return False
    for k, spans in groups.items():
        lines = sorted(got[k])
        if len(lines) != len(spans):
            return False
        for ln, (lo, hi) in zip(lines, sorted(spans)):
            if not (lo <= ln <= hi):
                return False
    return True


def judge(files, main, rs, rc, part, case):
    res = includes.resolve(files, main)
    problems = []
    got_t = [tuple(t) for t in rs["toks"]]
    if not got_t or got_t[-1][0] != L.T_EOF:
        problems.append("no final EOF token")
    body_t = got_t[:-1]
    if not res.malformed and body_t != [tuple(t) for t in res.toks]:
        problems.append("token stream differs: scanner %s, model %s" % ([t[1] for t in body_t][:30], [t[1] for t in res.toks][:30]))
    ge = sorted((e[0], e[2], e[3], e[4]) for e in rs["errors"])
    ee = sorted(res.errors)
    if not errors_match(rs["errors"], res):
        problems.append("scan errors (type,file,line,request): scanner %s, model %s" % (ge[:8], ee[:8]))
    for e in rs["errors"]:
        if not e[1]:
            problems.append("error with empty message")
    if rc is not None:
        if sorted(rc["requests"]) != sorted(res.requests):
            problems.append("file_requests %s, model %s" % (sorted(rc["requests"]), sorted(res.requests)))
        if res.requests and rc["ok"]:
            problems.append("compile marked correct although files are missing")
    if problems:
        part["violations"].append({"signature": "include-model:" + problems[0].split(":")[0].split(" ")[0] + "-" +
                                   problems[0].split(" ")[1][:12], "message": "; ".join(problems[:3]), "case": case,
                                   "expected": {"errors": ee, "requests": res.requests}})
        return None
    return res


def work(spec):
    part = harness.new_partial()
    inputs = gen(spec)
    scases = [{"mode": "scan", "main": m, "files": f, "opts": []} for f, m in inputs]
    ccases = [{"mode": "compile", "main": m, "files": f, "opts": [("program", 0)]} for f, m in inputs]
    souts, _ = common.run_batch(scases, case_cpu=120)
    couts, _ = common.run_batch(ccases, case_cpu=120)
    for (files, main), sc, rs, rc in zip(inputs, scases, souts, couts):
        part["evals"] += 1
        if common.abnormal(ID, sc, rs, part, "while scanning"):
            continue
        if common.abnormal(ID, sc, rc, part, "while compiling"):
            continue
        res = judge(files, main, rs, rc, part, common.slim_case(sc))
        if res is None:
            continue
        for e in res.errors:
            part["stats"]["error-type-%d" % e[0]] += 1
        part["stats"]["inclusions-performed"] += len(res.inclusions)
        part["stats"]["requests"] += len(res.requests)
        part["stats"]["graphs:" + spec["kind"]] += 1
        if any("include" in c for c in files.values()):
            part["nontrivial"].append(harness.chash([files, main]))
        if len(part["samples"]) < 1 and len(res.errors) >= 2 and len(res.inclusions) >= 2:
            part["samples"].append({"files": files, "main": main, "model_errors": res.errors,
                                    "inclusions": res.inclusions, "file_requests": rc["requests"]})
    return part


def finish(merged, tier, seed):
    return {"exhaustive": True, "exhaustive_scope": "all include graphs over %d files x <=2 directives (targets: every file, itself, "
            "missing, none)%s + absent main" % (3 if tier == "quick" else 4, "" if tier == "quick" else " up to renaming of non-main files")}


def replay(case):
    part = harness.new_partial()
    sc = {"mode": "scan", "main": case["main"], "files": case["files"], "opts": []}
    cc = {"mode": "compile", "main": case["main"], "files": case["files"], "opts": [("program", 0)]}
    rs, _ = common.run_batch([sc], case_cpu=120)
    rc, _ = common.run_batch([cc], case_cpu=120)
    if not common.abnormal(ID, sc, rs[0], part) and not common.abnormal(ID, sc, rc[0], part):
        judge(case["files"], case["main"], rs[0], rc[0], part, common.slim_case(sc))
    return part["violations"]
