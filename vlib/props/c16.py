"""C16 - programs cannot recurse: LOOP programs always halt, the call stack is bounded."""
import sys

from .. import harness
from ..gen import layouts, macrosets, programs
from ..ref import bytecode, pipeline
from . import common

ID = "C16"
LEVEL = "exploration"
TECHNIQUE = "reference-model monitor: R5 iteration counts + R8 call-graph reachability on emitted code + inline activation-depth monitor at every instruction boundary, under ASan+UBSan"
FLAVOURS = [("asan", "generated")]
RULE = ("(a) WHILE/GOTO-free generated programs (some with STOP, also as the last statement of guard loops that end routine and loop bodies, in one-line and multi-line layouts) whose LOOP bodies assign their own bound (a fifth of them through library macros whose temporaries bound two loops or are assigned inside their loop); a fresh counter cK := cK + 1 in every LOOP body makes the "
        "number of iterations actually performed observable in the final variables, which must equal the reference (bound value at entry); "
        "the VM must reach HALT within the bound derived from the reference step count; activation depth is monitored after every instruction "
        "and must stay <= #definitions + 1; the call graph of the emitted code (routines = reachability classes, edges = EXEC) must be acyclic; "
        "also call chains through 130 and 1100 definitions, LOOP nests 70 and 1100 deep, 1100 parameters / locals; "
        "(b) a systematic family of self / forward / mutual references, also through includes and redefinitions, each judged by R4; "
        "non-trivial = (a) >= 1 loop iteration with a bound-modifying body or >= 1 call, (b) every attempt; distinct by SHA-1 of the files")
ASSUMPTIONS = ["R4 decides which reference attempts are legal (a callee must be completely defined earlier in the text; a redefinition may call the previous definition of its own name)",
               "R5 gives the expected iteration counts"]


def plan(tier, seed):
    n = 2000 if tier == "quick" else 40000
    specs = [{"kind": "loop", "seed": seed, "chunk": i, "n": 50} for i in range(n // 50)]
    specs.append({"kind": "refs", "seed": seed, "reps": 1 if tier == "quick" else 20})
    return specs


def small_pool_program(r):
    """loop nests over very few variables (nested loops counting the same variable), for one-line layouts"""
    import vlib.gen.programs as P
    saved = P.VARS
    try:
        P.VARS = r.choice([["n", "m"], ["n"], ["n", "m", "k"]])
        o = programs.Opts(allow_while=False, allow_goto=False, allow_stop=False, count_loops=True, modify_bound=0.4,
                          max_defs=2, max_depth=4, p_label=0.0, init_vars=False)
        p = programs.Gen(r, o).program()
        if r.random() < 0.5:
            add_guard_loops(p, r)
        init = [{"k": "assign", "var": v, "val": ("const", r.randint(1, 4))} for v in P.VARS]
        p["main"] = init + p["main"]
        return p
    finally:
        P.VARS = saved


def add_guard_loops(p, r):
    """LOOPs whose body ENDS in STOP ("if g is set, give up"), as the last statement of routine bodies and of other loop
    bodies; the guard variable is usually 0 at entry, so the loop is skipped and whatever follows its END must run"""
    n = [0]

    def guard(vars_):
        n[0] += 1
        g = r.choice(["g%d" % n[0], "g%d" % n[0], r.choice(vars_) if vars_ else "g0"])
        body = [{"k": "stop"}] if r.random() < 0.5 else [{"k": "assign", "var": "h%d" % n[0], "val": ("const", 1)}, {"k": "stop"}]
        return {"k": "loop", "var": g, "body": body}

    def walk(b, vars_, depth):
        for st in list(b):
            if st["k"] == "loop":
                walk(st["body"], vars_, depth + 1)
        if r.random() < (0.35 if depth else 0.2):
            b.append(guard(vars_))
    for d in p["defs"]:
        walk(d["body"], d["params"], 0)
    walk(p["main"], ["n", "m"], 0)
    return p


def loop_program(r):
    o = programs.Opts(allow_while=False, allow_goto=False, allow_stop=r.random() < 0.3, count_loops=True, modify_bound=0.6,
                      max_defs=3, max_depth=3, p_label=0.0)
    p = programs.Gen(r, o).program()
    if r.random() < 0.4:
        add_guard_loops(p, r)
    # give every root variable a start value so that the loops really iterate
    init = [{"k": "assign", "var": v, "val": ("const", r.randint(0, 5))} for v in programs.VARS]
    p["main"] = init + p["main"]
    return p


def attempts(r):
    """reference attempts: (files, main, description)"""
    A = []
    body = "x0 := a"
    A.append(({"main": "PROGRAM f IN a DO\nx0 := RUN f WITH a END\nEND\nx := RUN f WITH 1 END"}, "main", "self"))
    A.append(({"main": "PROGRAM f IN a DO\nx0 := RUN g WITH a END\nEND\nPROGRAM g IN a DO\nx0 := a\nEND\nx := RUN f WITH 1 END"}, "main", "forward"))
    A.append(({"main": "PROGRAM f IN a DO\nx0 := RUN g WITH a END\nEND\nPROGRAM g IN a DO\nx0 := RUN f WITH a END\nEND\nx := RUN f WITH 1 END"}, "main", "mutual"))
    A.append(({"main": "PROGRAM g IN a DO\nx0 := a + 1\nEND\nPROGRAM f IN a DO\nx0 := RUN g WITH a END\nEND\nx := RUN f WITH 1 END"}, "main", "backward-legal"))
    A.append(({"main": "PROGRAM f IN a DO\nx0 := a + 1\nEND\nPROGRAM f IN a DO\nx0 := RUN f WITH a END ;\nx0 := x0 + 1\nEND\nx := RUN f WITH 1 END"}, "main", "redefinition-calls-previous"))
    A.append(({"main": "PROGRAM f IN a DO\nx0 := a\nEND\nPROGRAM f IN a DO\nx0 := RUN f WITH RUN f WITH a END END\nEND\nPROGRAM f IN a DO\nx0 := RUN f WITH a END\nEND\nx := RUN f WITH 3 END"}, "main", "redefinition-chain"))
    A.append(({"main": 'PROGRAM f IN a DO\ninclude "b"\nEND\nx := RUN f WITH 1 END', "b": "x0 := RUN f WITH a END"}, "main", "self-through-include"))
    A.append(({"main": 'include "g"\nPROGRAM f IN a DO\nx0 := RUN g WITH a END\nEND\nx := RUN f WITH 1 END',
               "g": "PROGRAM g IN a DO\nx0 := RUN f WITH a END\nEND"}, "main", "mutual-through-include"))
    A.append(({"main": 'include "g"\nPROGRAM f IN a DO\nx0 := RUN g WITH a END\nEND\nx := RUN f WITH 1 END',
               "g": "PROGRAM g IN a DO\nx0 := a\nEND"}, "main", "legal-through-include"))
    A.append(({"main": "x := RUN f WITH 1 END ;\ny := 1"}, "main", "undefined"))
    A.append(({"main": "PROGRAM f DO\nLOOP x0 DO\nx0 := RUN f WITH END\nEND\nEND\nx := RUN f WITH END"}, "main", "self-inside-loop"))
    A.append(({"main": "PROGRAM f IN a DO\nx0 := RUN f WITH RUN f WITH a END END\nEND\nx := 1"}, "main", "self-nested-arg-uncalled"))
    # redefinitions of identical shape (same arity, same frame size) whose new body reaches the old name again
    A.append(({"main": "PROGRAM f DO\nx0 := 7\nEND\nPROGRAM f DO\nx0 := RUN f WITH END\nEND\nx := RUN f WITH END"}, "main", "same-shape-redefinition-self"))
    A.append(({"main": "PROGRAM a DO\nx0 := 5\nEND\nPROGRAM b DO\nx0 := RUN a WITH END\nEND\nPROGRAM a DO\nx0 := RUN b WITH END\nEND\nx := RUN a WITH END"}, "main",
              "same-shape-redefinition-mutual"))
    A.append(({"main": 'include "lib"\nPROGRAM a DO\nx0 := RUN b WITH END\nEND\nx := RUN a WITH END',
               "lib": "PROGRAM a DO\nx0 := 6\nEND\nPROGRAM b DO\nx0 := RUN a WITH END\nEND"}, "main", "same-shape-redefinition-include"))
    A.append(({"main": 'include "lib"\ninclude "lib"\nx := RUN f WITH 2 END', "lib": "PROGRAM f IN a DO\nx0 := a + 1\nEND"}, "main", "double-include"))
    for _ in range(10):
        # random: k definitions of ONE name with equal arity; bodies padded to the same variables; each may call the name
        k = r.randint(2, 4)
        ar = r.randint(0, 2)
        params = ["p%d" % i for i in range(ar)]
        lines = []
        for i in range(k):
            lines.append("PROGRAM f" + ((" IN " + ", ".join(params)) if params else "") + " DO")
            args = ", ".join(r.choice(params + ["x0", "1"]) for _ in range(ar))
            body = ["t := x0 + %d" % i]
            if i > 0 and r.random() < 0.8:
                body.append("x0 := RUN f WITH %s END" % args)
            else:
                body.append("x0 := t + 1")
            lines.append(" ;\n".join(body))
            lines.append("END")
        lines.append("x := RUN f WITH %s END" % ", ".join(str(r.randint(0, 3)) for _ in range(ar)))
        A.append(({"main": "\n".join(lines)}, "main", "random-redefinition"))
    # random chains: k programs, each calling a random other (earlier = legal, same/later = illegal)
    for _ in range(12):
        k = r.randint(2, 5)
        lines = []
        for i in range(k):
            j = r.randrange(max(1, i)) if (i > 0 and r.random() < 0.7) else r.randrange(k)
            lines += ["PROGRAM h%d IN a DO" % i, "x0 := RUN h%d WITH a END ;" % j if r.random() < 0.8 else "x0 := a ;", "x0 := x0 + 1", "END"]
        lines.append("x := RUN h%d WITH 1 END" % (k - 1))
        A.append(({"main": "\n".join(lines)}, "main", "random-chain"))
    return A


def _work(spec):
    part = harness.new_partial()
    r = common.rng(spec["seed"], "C16", spec.get("chunk", 0))
    items = []
    if spec["kind"] == "loop":
        for k_ in range(spec["n"]):
            if k_ % 5 == 4:
                p = small_pool_program(r)
                toks = [t for l in programs.to_lines(p, programs.Speller(r)) for t in l]
                items.append(({"main": " ".join(toks)}, "main", "loop"))      # the whole program on one line
                continue
            if k_ % 5 == 3:
                # LOOPs that come out of macro bodies: bounds that are macro temporaries, used for two loops or assigned inside their loop
                for _try in range(20):
                    files, main, _ = macrosets.library_program(r, layout=r.random() < 0.3)
                    if not any("while" in v.lower() for v in files.values()):
                        break
                items.append((files, main, "loop"))
                continue
            p = loop_program(r)
            lines = programs.to_lines(p, programs.Speller(r))
            q = r.random()
            if q < 0.25:
                files, main = layouts.split_lines(lines, r)
            elif q < 0.55:
                # several statements and loop headers per line
                files, main = {"main": layouts.random_layout([t for l in lines for t in l], r)}, "main"
            else:
                files, main = {"main": layouts.canonical(lines)}, "main"
            items.append((files, main, "loop"))
    else:
        for _ in range(spec["reps"]):
            items += attempts(r)
        for text, kind in programs.long_distance_sources(r)[:1]:
            items.append(({"main": text}, "main", "loop"))     # a LOOP whose body is longer than 2^15 instructions
        for files, main, kind in programs.scale_sources(r, small=True) + programs.scale_sources(r, large=True):
            # call chains through 130-300 definitions, 260-520 definitions, LOOPs nested 70-260 deep, 260 parameters / locals
            if any(w in kind for w in ("call-chain", "definitions", "loop-nesting", "parameters", "locals")):
                items.append((files, main, "loop"))
    prepared = []
    for files, main, desc in items:
        f = pipeline.front(files, main)
        st = interp = None
        vm_budget = 5000
        if f.verdict and not f.excluded:
            st, interp = pipeline.run(f, 100000)
            if st == "done":
                vm_budget = 16 * max(8, f.parser.max_stmt_tokens) * interp.steps + 256
        opts = [("budget", vm_budget), ("program", 1)]
        if len(prepared) % 3 == 0:
            # the same machine object used again after reset(): depth bound and iteration counts must hold for the rerun too
            opts = [("budget", vm_budget + 60), ("program", 1), ("reset_at", "7 53")]
        case = {"mode": "run", "main": main, "files": files, "opts": opts}
        prepared.append((files, main, desc, f, st, interp, case))
    outs, _ = common.run_batch([p[-1] for p in prepared])
    for (files, main, desc, f, st, interp, case), r_ in zip(prepared, outs):
        part["evals"] += 1
        if common.abnormal(ID, case, r_, part):
            continue
        if f.excluded:
            part["stats"]["nj-excluded"] += 1
            continue
        ndefs = len(f.parser.defs) if f.parser else 0
        if desc != "loop":
            part["stats"]["attempt:%s:%s" % (desc, "legal" if f.verdict else "illegal")] += 1
            if r_["ok"] != f.verdict:
                part["violations"].append({"signature": "reference-attempt:%s:%s" % (desc, "accepted" if r_["ok"] else "rejected"),
                                           "message": "%s reference: R4 says %s, compiler %s (errors %s)" % (
                                               desc, "legal" if f.verdict else "illegal (" + f.reason + ")",
                                               "accepts" if r_["ok"] else "rejects", [e[1][:60] for e in r_["errors"][:3]]),
                                           "case": common.slim_case(case)})
                continue
            if not f.verdict and "unknown program" in f.reason and not any(e[0] == 3 for e in r_["errors"]):
                part["violations"].append({"signature": "reference-attempt:no-unknown-program-error", "message":
                                           "%s: rejected but without an unknown-program error: %s" % (desc, r_["errors"][:3]),
                                           "case": common.slim_case(case)})
                continue
        if not r_["ok"]:
            if desc == "loop":
                part["stats"]["loop:rejected"] += 1
            else:
                part["nontrivial"].append(harness.chash(files))
            continue
        if not f.verdict:
            part["stats"]["compiler-accepts-ref-rejects"] += 1   # C04's business for generated programs
            continue
        # call graph of the emitted code
        probs, info = bytecode.verify(r_["code"], r_["maps"])
        if info["cyclic"]:
            part["violations"].append({"signature": "call-graph-cycle", "message": "EXEC graph of the emitted code has a cycle: %s" % probs[:3],
                                       "case": common.slim_case(case)})
            continue
        if r_["maxdepth"] > ndefs + 1:
            part["violations"].append({"signature": "activation-depth", "message": "activation depth %d > %d definitions + 1"
                                       % (r_["maxdepth"], ndefs), "case": common.slim_case(case)})
            continue
        part["stats"]["depth-boundaries-checked"] += r_["boundaries"]
        part["stats"]["max-depth-seen"] = max(part["stats"]["max-depth-seen"], r_["maxdepth"])
        part["stats"]["max-static-call-depth"] = max(part["stats"]["max-static-call-depth"], info["depth"])
        if st == "range":
            part["stats"]["nj-range"] += 1
            continue
        if st != "done":
            part["stats"]["nj-run-longer-than-reference-budget"] += 1   # halts eventually, but not within the explored bound
            continue
        if not r_["done"]:
            part["violations"].append({"signature": "loop-program-does-not-halt", "message":
                                       "WHILE/GOTO-free program not at HALT after %d instructions (reference: %d steps)" % (r_["steps"], interp.steps),
                                       "case": common.slim_case(case)})
            continue
        exp = interp.final()
        bad = []
        for (rn, rv), (_, ov) in zip(exp, r_["acts"]):
            for k, v in rv.items():
                if k.startswith("\x00"):
                    continue   # a macro temporary: the reference's name for it is not the compiler's (C10 maps them)
                if ov.get(k) != v:
                    bad.append("%s = %s, reference %d%s" % (k, ov.get(k), v, " (iteration counter)" if k.startswith("c") and k[1:].isdigit() else ""))
        if bad or len(exp) != len(r_["acts"]):
            part["violations"].append({"signature": "iteration-count" if any("iteration counter" in b for b in bad) else "values-differ",
                                       "message": "; ".join(bad[:6]), "case": common.slim_case(case), "expected": exp, "observed": r_["acts"]})
            continue
        part["stats"]["loop-programs-agree"] += 1 if desc == "loop" else 0
        part["stats"]["loop-iterations-observed"] += interp.loop_iters
        if interp.loop_iters >= 1 or interp.calls >= 1 or desc != "loop":
            part["nontrivial"].append(harness.chash(files))
        if len(part["samples"]) < 1 and interp.loop_iters > 5 and interp.calls > 1 and desc == "loop":
            part["samples"].append({"files": files, "final": r_["acts"], "max_depth": r_["maxdepth"], "definitions": ndefs})
    return part




def work(spec):
    part = _work(spec)
    for v in part["violations"]:
        if isinstance(v.get("case"), dict):
            v["case"]["spec"] = spec
    return part


def replay(case):
    """re-run the chunk the stored case came from and report the violations with the same signature family"""
    if "spec" not in case:
        return []
    from .. import harness as _h
    if hasattr(sys.modules[__name__], "plan") and case["spec"].get("kind") in ("seq", "conc"):
        plan("quick", case["spec"].get("seed", 1))   # C18: baselines are computed in plan()
    return _work(case["spec"])["violations"]
