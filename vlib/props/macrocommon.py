"""Step-by-step replay of an apply_macros run (hook-2 events) against the reference macro model R3.
Shared by C09 (choice + substitution), C10 (hygiene) and C11 (budget)."""
from ..ref import includes, lexer as L, macros as RM, patterns

NON_LR, MAX_PASSES = 7, 8


def ref_tokens(files, main):
    """R1+R2 token stream of the input as Theo::scan sees it (no hidden standard macros in macro mode)"""
    res = includes.resolve(files, main)
    return res


def is_temp(tok):
    return tok[0] == L.ID and tok[1].startswith(RM.TMP_PREFIX)


class Replay:
    def __init__(self):
        self.problems = []   # (signature, message)
        self.steps = 0
        self.ties = 0
        self.pass_mismatch = 0
        self.temps = 0       # rewrites that introduced temporaries
        self.tmap = {}       # R3 temp name -> engine text
        self.rmap = {}       # engine text -> R3 temp name
        self.final_rewritable = None
        self.ref_stream = None
        self.nj = None
        self.rejected = 0

    def bad(self, sig, msg):
        if len(self.problems) < 5:
            self.problems.append((sig, msg))


def same_stream(rp, ref, eng):
    """compare (kind,text) sequences; temporaries up to a global bijection (hygiene)"""
    if len(ref) != len(eng):
        return "length %d vs engine %d" % (len(ref), len(eng))
    for i, (a, b) in enumerate(zip(ref, eng)):
        if is_temp(a):
            if b[0] != L.ID:
                return "token %d: temporary expected, engine has %r" % (i, b[:2])
            et = b[1]
            if a[1] in rp.tmap and rp.tmap[a[1]] != et:
                return "hygiene: temporary %r of one expansion step is spelled %r and %r" % (a[1][1:], rp.tmap[a[1]], et)
            if et in rp.rmap and rp.rmap[et] != a[1]:
                return "hygiene: identifier %r denotes temporaries of two different expansion steps/numbers (%r and %r)" % (
                    et, rp.rmap[et][1:], a[1][1:])
            rp.tmap[a[1]] = et
            rp.rmap[et] = a[1]
            # must not be writable by a user: R1 must not read it as one identifier
            ts = L.tokenize(et)
            if len(ts) == 1 and ts[0][0] == L.ID:
                return "hygiene: generated identifier %r can be written by a user" % et
        else:
            if a[0] != b[0] or a[1] != b[1]:
                if b[0] == L.ID and b[1] in rp.rmap:
                    return "token %d: engine has temporary %r where %r is expected" % (i, b[1], a[:2])
                return "token %d: %r, engine %r" % (i, a[:2], tuple(b[:2]))
    return None


def strip_eof(toks):
    toks = [tuple(t) for t in toks]
    if toks and toks[-1][0] == L.T_EOF:
        return toks[:-1]
    return toks


def replay(files, main, o, budget, check_final=True, max_steps=400):
    """o: driver output of mode `macro` (streams=1).  -> Replay"""
    rp = Replay()
    res = ref_tokens(files, main)
    if res.errors:
        rp.nj = "scan errors"
        return rp
    try:
        prog, ms = RM.extract(res.toks)
    except RM.Malformed as e:
        rp.nj = "malformed definitions: %s" % e
        return rp
    if o["ext_errors"]:
        rp.bad("extraction-error", "well-formed definitions, but extraction reported %s" % o["ext_errors"][:2])
        return rp
    ext = strip_eof(o["ext_tokens"])
    if [t[:2] for t in ext] != [t[:2] for t in prog]:
        rp.bad("extraction-differs", "program tokens after extraction differ: %s vs %s" % (
            " ".join(t[1] for t in ext)[:200], " ".join(t[1] for t in prog)[:200]))
        return rp
    if len(o["macros"]) != len(ms):
        rp.bad("extraction-differs", "%d macro definitions extracted, reference %d" % (len(o["macros"]), len(ms)))
        return rp
    usable = []
    for m in ms:
        det = patterns.deterministic([t[0] for t in m["pattern"]])
        m["det"] = det
        if det:
            usable.append(m)
    nonlr = [e for e in o["app_errors"] if e[0] == NON_LR]
    exp_pos = sorted((m["file"], m["line"]) for m in ms if not m["det"])
    got_pos = sorted((e[2], e[3]) for e in nonlr)
    spans = sorted((m["file"], min(m.get("dline", m["line"]), m["line"]), m["line"]) for m in ms if not m["det"])
    # "at the position of its definition": any line from the DEFINE keyword to the pattern's first token is accepted
    ok_pos = len(spans) == len(got_pos) and all(g[0] == s_[0] and s_[1] <= g[1] <= s_[2] for g, s_ in zip(got_pos, spans))
    if not ok_pos:
        rp.bad("non-lr-verdicts", "non-linear errors reported at %s, the reference rejects the patterns defined at %s" % (got_pos, exp_pos))
        return rp
    rp.rejected = len(exp_pos)
    cur = list(prog)
    events = o["events"]
    for k, ev in enumerate(events):
        if k >= max_steps:
            break
        pas, d, loc, ln, size_after = ev[:5]
        stream_after = strip_eof(ev[5]) if len(ev) > 5 else None
        if pas != k:
            # the engine's own pass counter is not part of any property: steps are identified by their order; what a
            # step that is not charged to the budget breaks is C11's rewrite count and C10's names, judged there
            rp.pass_mismatch += 1
        cands = RM.candidates(cur, usable)
        b = RM.best(cands)
        if not b:
            rp.bad("rewrite-without-match", "engine rewrote %d tokens at %d but the reference finds no match at all in: %s" % (
                ln, loc, " ".join(t[1] for t in cur)[:300]))
            return rp
        if len(set((c[1], c[2]) for c in b)) == 1 and len(b) > 1:
            rp.ties += 1
        chosen = [c for c in b if c[1] == loc and c[2] == ln and (d < 0 or c[3] == d)]
        if not chosen:
            bb = b[0]
            allm = [c for c in cands if c[1] == loc and c[2] == ln]
            why = "not a match of any usable macro"
            if allm:
                c = allm[0]
                if c[0] != bb[0]:
                    why = "priority %d, but a match of priority %d exists" % (c[0], bb[0])
                elif c[1] != bb[1]:
                    why = "starts at %d, but a match of equal priority starts at %d" % (c[1], bb[1])
                else:
                    why = "length %d, but a longer match (%d) starts at the same position" % (c[2], bb[2])
            rp.bad("not-best-candidate:" + why.split(",")[0].split(" ")[0], "step %d: engine rewrote [%d,+%d) = '%s' (definition %d): %s; stream: %s" % (
                k, loc, ln, " ".join(t[1] for t in cur[loc:loc + ln]), d, why, " ".join(t[1] for t in cur)[:300]))
            return rp
        # substitution
        ok = None
        for c in chosen:
            m = next(mm for mm in usable if mm["order"] == c[3])
            nxt = RM.instantiate(cur, m, c[1], c[2], c[4], k)
            if stream_after is None:
                ok = nxt
                break
            save = (dict(rp.tmap), dict(rp.rmap))
            diff = same_stream(rp, nxt, stream_after)
            if diff is None:
                ok = nxt
                break
            rp.tmap, rp.rmap = save
            last = diff
        if ok is None:
            sig = "hygiene" if last.startswith("hygiene") else "substitution"
            rp.bad(sig, "step %d (definition %d at %d,+%d): stream after the rewrite is not prefix + instantiated body + suffix: %s" % (
                k, chosen[0][3], loc, ln, last))
            return rp
        if size_after != len(ok) + 1 and size_after != len(ok):
            rp.bad("substitution", "step %d: stream size %d, reference %d" % (k, size_after, len(ok)))
            return rp
        if any(is_temp(t) for t in ok[loc:loc + (len(ok) - len(cur) + ln)]):
            rp.temps += 1
        cur = ok
        rp.steps += 1
    rp.ref_stream = cur
    complete = len(events) <= max_steps and o["nevents"] == len(events)
    maxerr = any(e[0] == MAX_PASSES for e in o["app_errors"])
    if complete:
        diff = same_stream(rp, cur, strip_eof(o["out"]))
        if diff is not None:
            rp.bad("final-stream", "transformed_sequence differs from the replayed stream: %s" % diff)
            return rp
        if o["nevents"] > budget:
            rp.bad("budget-exceeded", "%d rewrites with a budget of %d passes" % (o["nevents"], budget))
            return rp
        rewritable = bool(RM.candidates(cur, usable))
        rp.final_rewritable = rewritable
        if rewritable and not maxerr:
            if o["nevents"] < budget:
                c = RM.best(RM.candidates(cur, usable))[0]
                rp.bad("stopped-early", "engine stopped after %d of %d passes without error although '%s' at %d still matches (definition %d)" % (
                    o["nevents"], budget, " ".join(t[1] for t in cur[c[1]:c[1] + c[2]]), c[1], c[3]))
            else:
                rp.bad("budget-exhausted-silently", "budget of %d passes used up, rewriting still possible, but no too-many-substitutions error" % budget)
            return rp
        if maxerr and o["nevents"] < budget:
            rp.bad("spurious-budget-error", "too-many-substitutions error after only %d of %d passes" % (o["nevents"], budget))
            return rp
    return rp
