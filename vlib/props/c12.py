"""C12 - ambiguous macro patterns are rejected, deterministic ones are accepted."""
import itertools

import sys

from .. import harness
from ..ref import includes, lexer as L, macros as RM, patterns
from . import common

ID = "C12"
LEVEL = "exploration"
TECHNIQUE = "reference-model monitor: independent canonical LR(1) construction in prefix mode (R6) on the documented slot grammar decides every pattern; engine verdict, error position and effect on uses observed through apply_macros under ASan+UBSan; exhaustive short patterns"
FLAVOURS = [("asan", "generated")]
SYMS = ["<ID>", "<INT>", "<V>", "<ARGS>", "<P>", "a", "+", "7", "(", ")", ",", ";", ":", ":=", "DO", "THEN", "END", "WITH", "LOOP"]
RULE = ("ALL patterns up to length L (quick 3, thorough 4) over the 5 slot kinds and 14 literal tokens %s, plus random patterns of length 5-9; each is "
        "defined next to an unrelated second macro and followed by a use built from the pattern; the engine must report MACRO_COMPILE_NON_LR at the "
        "file/line of the pattern's first token exactly when R6 finds a conflict, must never rewrite a use of a rejected pattern, must rewrite a use "
        "that R3 matches when the pattern is accepted, and must apply the second macro in every case; "
        "plus SETS of 2-6 definitions mixing rejected and accepted patterns in every adjacency and priority, replayed rewrite by rewrite (error at "
        "each rejected definition's position, rejected never applied, every accepted one applied as R3 predicts); "
        "non-trivial = every pattern of length >= 2 / every set; distinct by the pattern or set" % SYMS)
ASSUMPTIONS = ["R6 (vlib/ref/lr.py + patterns.py): textbook canonical LR(1) with the documented prefix rule, on the slot grammar as documented in macro.cpp's comment/structure",
               "R3 decides whether the generated use really derives from the pattern"]

FILL = {"RUN": ["RUN"], "<ID>": ["u"], "<INT>": ["7"], "<V>": ["RUN", "f", "WITH", "u", ",", "7", "END"], "<ARGS>": ["u", ",", "7"],
        "<P>": ["u", ":=", "7", ";", "STOP"]}
NON_LR = 7


def plan(tier, seed):
    Lmax = 3 if tier == "quick" else 4
    specs = []
    for first in SYMS:
        if tier == "quick":
            specs.append({"kind": "exh", "prefix": [first], "rest": Lmax - 1})
        else:
            for second in SYMS:
                specs.append({"kind": "exh", "prefix": [first, second], "rest": Lmax - 2})
    if tier != "quick":
        specs.append({"kind": "exh1"})
    n = 2000 if tier == "quick" else 40000
    for i in range(n // 250):
        specs.append({"kind": "rand", "seed": seed, "chunk": i, "n": 250})
    # a slot, a separator, then two more symbols from the whole language vocabulary: is what follows the slot a possible
    # continuation of the slot itself?
    for slot in CONT_SLOTS:
        for sep in CONT_SEPS:
            specs.append({"kind": "cont", "slot": slot, "sep": sep, "deep": tier != "quick"})
    n = 1600 if tier == "quick" else 32000
    for i in range(n // 100):
        specs.append({"kind": "sets", "seed": seed, "chunk": i, "n": 100})
    return specs


# ---- sets of definitions: rejected and accepted patterns in every adjacency
SET_POOL = ["<V>", "<ID> , <INT>", "<ID> @ <V>", "( <ARGS> )", "<P> FI", "<INT>", "<V> % <V>",        # mostly deterministic
            "<P>", "<ARGS>", "<P> ; q", "<ARGS> , 7", "<V> <P>", "<ID> <ARGS>", "<P> ; <P> FI", "( <ARGS> , <V> )"]   # mostly not


def set_source(r):
    k = r.randint(2, 6)
    lines = []
    uses = []
    for i in range(k):
        pat = ("W%d " % i) + r.choice(SET_POOL)
        prio = r.choice(["", "", "PRIO 3 ", "PRIO 9 "])
        lines.append("DEFINE %s%s%sAS%sdone%d END DEFINE" % (prio, pat, r.choice([" ", "\n"]), r.choice([" ", "\n"]), i))
        use = []
        for s_ in pat.split(" "):
            use += FILL.get(s_, [s_])
        uses.append(" ".join(use))
    if r.random() < 0.35:
        # the same definition (priority, pattern, body: token for token) a second or third time further down
        for _ in range(r.randint(1, 2)):
            d = r.choice(lines)
            lines.insert(r.randint(lines.index(d) + 1, len(lines)), d if r.random() < 0.5 else d.replace("\n", " "))
    r.shuffle(uses)
    if r.random() < 0.3:
        # several definitions on ONE source line (their errors then share file and line)
        lines = [l.replace("\n", " ") for l in lines]
        text = ""
        for i, l in enumerate(lines):
            text += l + (" " if r.random() < 0.7 and i + 1 < len(lines) else "\n")
        return text + " | ".join(uses)
    return "\n".join(lines) + "\n" + " | ".join(uses)


def work_sets(spec, part):
    from . import macrocommon
    r = common.rng(spec["seed"], "C12sets", spec["chunk"])
    srcs = [set_source(r) for _ in range(spec["n"])]
    # every third set gets a budget of 1-3 passes, fewer than it has uses: the budget error and the non-linear errors have to coexist
    budgets = [60 if i % 3 else r.randint(1, 3) for i in range(len(srcs))]
    cases = [{"mode": "macro", "main": "main", "files": {"main": t}, "opts": [("passes", b), ("streams", 1), ("maxevents", 80)]} for t, b in zip(srcs, budgets)]
    outs, _ = common.run_batch(cases)
    for text, case, o, budget_ in zip(srcs, cases, outs, budgets):
        part["evals"] += 1
        if common.abnormal(ID, case, o, part, "while compiling a set of macro patterns"):
            continue
        rp = macrocommon.replay({"main": text}, "main", o, budget_)
        if rp.nj:
            part["stats"]["nj:" + rp.nj.split(":")[0]] += 1
            continue
        if budget_ < 60 and any(e[0] == macrocommon.MAX_PASSES for e in o["app_errors"]):
            part["stats"]["sets:budget-exhausted-beside-rejected-patterns"] += 1 if rp.rejected else 0
        if rp.problems:
            sig, msg = rp.problems[0]
            part["violations"].append({"signature": "sets:" + sig, "message": msg, "case": common.slim_case(case)})
            continue
        part["stats"]["sets-checked"] += 1
        part["stats"]["sets:patterns-rejected"] += rp.rejected
        part["stats"]["sets:rewrites-replayed"] += rp.steps
        part["nontrivial"].append(harness.chash(text))
        if len(part["samples"]) < 1 and rp.rejected >= 2 and rp.steps >= 2:
            part["samples"].append({"source": text, "non_linear_errors": [e[1:4] for e in o["app_errors"]], "output": " ".join(t[1] for t in o["out"])})


CONT_SLOTS = ["<ARGS>", "<P>", "<V>", "<ID>"]
CONT_SEPS = [",", ";", ":", ":=", "WITH", "DO"]
EXT = SYMS + ["RUN", "WHILE", "GOTO", "IF", "STOP", "=", "!= 0"]


def pats(spec):
    if spec["kind"] == "cont":
        for a in EXT:
            yield [spec["slot"], spec["sep"], a]
            for b in EXT:
                yield [spec["slot"], spec["sep"], a, b]
                if spec["deep"]:
                    for lead in ("a", "("):
                        yield [lead, spec["slot"], spec["sep"], a, b]
        return
    if spec["kind"] == "exh":
        for n in range(0, spec["rest"] + 1):
            for w in itertools.product(SYMS, repeat=n):
                yield spec["prefix"] + list(w)
    elif spec["kind"] == "exh1":
        for s in SYMS:
            yield [s]
    else:
        r = common.rng(spec["seed"], "C12", spec["chunk"])
        words = SYMS + ["IFZ", "FI", "ELSE", "*", "@", "GOTO", "IF", "=", "STOP", "WHILE", "!= 0", "RUN", "12"]
        for _ in range(spec["n"]):
            yield [r.choice(words) for _ in range(r.randint(5, 9))]


def source(p):
    use = []
    for s in p:
        use += FILL.get(s, [s])
    text = "DEFINE\n" + " ".join(p) + "\nAS\nzz END DEFINE\nDEFINE PRIO 5 OTHERMAC AS other_applied END DEFINE\nq1 " + " ".join(use) + " q2 OTHERMAC"
    return text


def _work(spec):
    part = harness.new_partial()
    if spec["kind"] == "sets":
        work_sets(spec, part)
        return part
    plist = list(pats(spec))
    cases = [{"mode": "macro", "main": "main", "files": {"main": source(p)}, "opts": [("passes", 40)]} for p in plist]
    outs, _ = common.run_batch(cases)
    for p, case, o in zip(plist, cases, outs):
        part["evals"] += 1
        if common.abnormal(ID, case, o, part, "while compiling a macro pattern"):
            continue
        text = case["files"]["main"]
        toks = [(k, t, "main", l) for k, t, l in L.tokenize(text)]
        try:
            prog, ms = RM.extract(toks)
        except RM.Malformed:
            part["stats"]["nj-malformed-definition"] += 1
            continue
        if len(ms) != 2 or o["ext_errors"]:
            part["stats"]["nj-extraction-differs"] += 1
            continue
        kinds = [t[0] for t in ms[0]["pattern"]]
        det = patterns.deterministic(kinds)
        errs = [e for e in o["app_errors"] if e[0] == NON_LR]
        eng_rejects = len(errs) > 0
        bad = None
        if eng_rejects != (not det):
            bad = ("verdict:" + ("engine-accepts-ambiguous" if not det else "engine-rejects-deterministic"),
                   "pattern '%s': reference says %s, engine %s" % (" ".join(p), "deterministic" if det else "not prefix-LR(1)",
                                                                    "rejects" if eng_rejects else "accepts"))
        elif eng_rejects and (len(errs) != 1 or errs[0][2] != "main" or not (ms[0]["dline"] <= errs[0][3] <= ms[0]["line"])):
            bad = ("error-position", "pattern '%s': non-linear error reported at %s, definition's first pattern token is at main:%d"
                   % (" ".join(p), [(e[2], e[3]) for e in errs], ms[0]["line"]))
        out_texts = [t[1] for t in o["out"]]
        other_rewrites = sum(1 for e in o["events"] if e[1] == 1)
        first_rewrites = sum(1 for e in o["events"] if e[1] == 0)
        if bad is None and other_rewrites != 1:
            bad = ("other-macro-not-applied", "pattern '%s' (%s): the unrelated second macro was not applied: %s"
                   % (" ".join(p), "rejected" if eng_rejects else "accepted", " ".join(out_texts)))
        if bad is None and eng_rejects and (first_rewrites or "zz" in out_texts):
            bad = ("rejected-macro-applied", "pattern '%s' was reported as non-linear but its use was rewritten" % " ".join(p))
        if bad is None and not eng_rejects:
            others = [m for m in ms if m["order"] == 1]
            c = RM.candidates(prog, [ms[0]])
            if c and first_rewrites == 0:
                bad = ("accepted-macro-not-applied", "pattern '%s' accepted, R3 matches its use, but nothing was rewritten: %s"
                       % (" ".join(p), " ".join(out_texts)))
            if c:
                part["stats"]["accepted-and-use-rewritten"] += 1
        if bad:
            part["violations"].append({"signature": bad[0], "message": bad[1], "case": common.slim_case(case)})
            continue
        part["stats"]["rejected-by-both" if eng_rejects else "accepted-by-both"] += 1
        if len(p) >= 2:
            part["nontrivial"].append(harness.chash(p))
        if len(part["samples"]) < 2 and len(p) >= 3 and (eng_rejects == (len(part["samples"]) == 0)):
            part["samples"].append({"pattern": " ".join(p), "verdict": "rejected (non-linear)" if eng_rejects else "accepted",
                                    "output": " ".join(out_texts)})
    return part


def finish(merged, tier, seed):
    return {"exhaustive": True, "exhaustive_scope": "all patterns of length <= %d over %d symbols" % (3 if tier == "quick" else 4, len(SYMS))}




def work(spec):
    part = _work(spec)
    for v in part["violations"]:
        if isinstance(v.get("case"), dict):
            v["case"]["spec"] = spec
    return part


def replay(case):
    """re-run the chunk the stored case came from and report the violations with the same signature family"""
    if "spec" not in case:
        return []
    from .. import harness as _h
    if hasattr(sys.modules[__name__], "plan") and case["spec"].get("kind") in ("seq", "conc"):
        plan("quick", case["spec"].get("seed", 1))   # C18: baselines are computed in plan()
    return _work(case["spec"])["violations"]
