"""C14 - the scanner's token stream is faithful to the source text; committed == generated scanner."""
import itertools

from .. import build, harness
from ..gen import layouts, programs
from ..ref import includes, lexer as L
from . import common

ID = "C14"
LEVEL = "exploration"
TECHNIQUE = "reference-model monitor: maximal-munch tokenizer + include splicer (R1,R2) vs both scanner builds under ASan+UBSan; exhaustive short strings"
FLAVOURS = [("asan", "generated"), ("asan", "committed")]
ALPHABET = "IFNDOPa01 \n:=!<>$#/\""
RULE = ("all strings up to length L over the %d scanner-significant characters %r (exhaustive), keyword soup with every "
        "documented spelling and near-misses, mutated programs, multi-file include layouts, files of up to 2^24 lines (tokens on lines beyond 2^15, 2^16, 2^23, 2^24, in main and included files), byte noise (NUL, 0x80-0xFF, CR, FF); "
        "each input is scanned by the flex-generated AND the committed scanner and compared token by token "
        "(kind, text, file, line) with the reference; non-trivial = at least one token; distinct by SHA-1 of the file map"
        % (len(ALPHABET), ALPHABET))
ASSUMPTIONS = ["R1/R2 (vlib/ref/lexer.py, includes.py) written from the scanner specification; fast scanner cross-checked against the rule table in selftest",
               "not judged: file/line label of the final EOF token; tokens following an include that lacks a quoted name"]

NEAR = ["ENDDEFx", "END  DEFINE", "END\nDEFINE", "End define", "!=  0", "!=0", "!= 00", "<Args", "<ARGS >", "$01", "$", "#",
        "#12a", "<pROG>", "<Prog>", "<value>", "iF", "If", "DOx", "x_DO", "_", "0x", "00", "1e5", "\"unterminated", "\"a\nb\"",
        "\"\"", "///", "/ /", "//\n", "include", "Include\"f\"", ":=:", "::=", "=:", "<<P>>", "<P", "P>", "__INC__", "Prio", "PRIOR",
        "Def", "DEFINEx", "enddef", "End Define", "end define", "END DEFINE", "\t", "\r", "\r\n", "\f", "\v", "\x00", "\x80", "\xff",
        "\xc3\xa4", "ä"]


def plan(tier, seed):
    L_ = 4 if tier == "quick" else 5
    specs = []
    if tier == "quick":
        for c in ALPHABET:
            specs.append({"kind": "exh", "prefix": c, "rest": L_ - 1, "seed": seed})
    else:
        for c in ALPHABET:
            for d in ALPHABET:
                specs.append({"kind": "exh", "prefix": c + d, "rest": L_ - 2, "seed": seed})
        specs.append({"kind": "exh1", "seed": seed})
    specs.append({"kind": "nul", "seed": seed})
    nsoup = 20000 if tier == "quick" else 400000
    for i in range(nsoup // 2000):
        specs.append({"kind": "soup", "chunk": i, "n": 2000, "seed": seed})
    for i in range(2 if tier == "quick" else 16):
        specs.append({"kind": "far", "chunk": i, "seed": seed})
    nprog = 1500 if tier == "quick" else 30000
    for i in range(nprog // 250):
        specs.append({"kind": "prog", "chunk": i, "n": 250, "seed": seed})
    return specs


def gen_cases(spec):
    """-> list of (files, main)"""
    k = spec["kind"]
    out = []
    if k == "exh":
        p = spec["prefix"]
        for n in range(0, spec["rest"] + 1):
            for w in itertools.product(ALPHABET, repeat=n):
                out.append(({"main": p + "".join(w)}, "main"))
        if p == ALPHABET[0] or p == ALPHABET[0] * 2:
            out.append(({"main": ""}, "main"))
    elif k == "nul":
        # NUL bytes everywhere, in particular at the end of main and included files (a C string ends there)
        small = "\x00a \n\""
        for n in range(0, 6):
            for w in itertools.product(small, repeat=n):
                out.append(({"main": "".join(w)}, "main"))
        r = common.rng(spec["seed"], "C14nul")
        tails = ["\x00", "\x00\x00", "\x00\x00\x00", "\n\x00\x00", "x\x00\x00", "\x00\x00\n", "\x00 \x00", "\x00\x00x"]
        for _ in range(300):
            body = " ".join(r.choice(["x", ":=", "1", ";", "END", "\"q\"", "// c\n", "\n"]) for _ in range(r.randint(0, 8)))
            t1, t2 = r.choice(tails), r.choice(tails)
            out.append(({"main": body + t1}, "main"))
            out.append(({"main": 'a include "inc" b include "inc" c' + t2, "inc": body + t1}, "main"))
            out.append(({"main": t1 + body + t2}, "main"))
    elif k == "exh1":
        for c in ALPHABET:
            out.append(({"main": c}, "main"))
    elif k == "soup":
        r = common.rng(spec["seed"], "C14soup", spec["chunk"])
        words = [w for ws in L.SPELL.values() for w in ws] + NEAR + ["x", "y1", "42", "0", ";", ",", "(", ")", ":", ":=", "=",
                                                                      "!= 0", "+", "-"]
        seps = ["", "", " ", " ", "\n", ";", "\t", "  ", "// c\n", "\n\n"]
        for _ in range(spec["n"]):
            s = "".join(r.choice(words) + r.choice(seps) for _ in range(r.randint(1, 10)))
            out.append(({"main": s}, "main"))
    elif k == "far":
        # tokens standing on lines whose number needs more than 15, 16, 23, 24 bits (up to 16 MiB of filler lines)
        r = common.rng(spec["seed"], "C14far", spec["chunk"])
        ths = layouts.FAR_THRESHOLDS[:2] if spec["chunk"] % 2 == 0 else layouts.FAR_THRESHOLDS[2:]
        for t in ths + ths[:1]:
            lines = programs.to_lines(programs.Gen(r).program(), programs.Speller(r))
            out.append(layouts.far_program(r, lines, [t]))
    elif k == "prog":
        r = common.rng(spec["seed"], "C14prog", spec["chunk"])
        for i in range(spec["n"]):
            g = programs.Gen(r)
            p = g.program()
            kw = programs.Speller(r)
            lines = programs.to_lines(p, kw)
            toks = [t for l in lines for t in l]
            m = i % 5
            if m == 0:
                files, main = {"main": layouts.random_layout(toks, r, tight=0.5)}, "main"
            elif m == 1:
                files, main = layouts.split_tokens(toks, r, max_files=4)
            elif m == 2:
                files, main = layouts.split_lines(lines, r, max_files=4)
                # cycles, repeated inclusion, missing files
                names = list(files)
                tgt = r.choice(names + ["missing"])
                victim = r.choice(names)
                files[victim] += '\ninclude "%s"\nzz := 1' % tgt
                others = [n for n in names if n != main]
                if others and r.random() < 0.5:
                    # an included file that ends in a bare include directive: the includer's next tokens must survive
                    files[r.choice(others)] += r.choice(["\ninclude", "\nInclude  // dangling\n", " INCLUDE\n\n"])
            elif m == 3:
                # byte-level mutation of a program text
                s = layouts.canonical(lines)
                b = list(s)
                for _ in range(r.randint(1, 6)):
                    pos = r.randrange(len(b) + 1)
                    ch = r.choice(["\x00", "\x80", "\xff", "\r", "\f", "\"", "/", "<", ">", "$", "#", "!", " ", "\n", "E", "0"])
                    op = r.random()
                    if op < 0.4 and pos < len(b):
                        b[pos] = ch
                    elif op < 0.8:
                        b.insert(pos, ch)
                    elif pos < len(b):
                        del b[pos]
                files, main = {"main": "".join(b)}, "main"
            else:
                # multi-line file names, include edge cases
                s = layouts.canonical(lines)
                files = {"main": 'include\n"a\nb" ' + s + ' include "a\nb"', "a\nb": "q1 q2\nq3"}
                main = "main"
            out.append((files, main))
    return out


def judge_one(files, main, r, variant, part):
    """compare one scan observation with the reference"""
    res = includes.resolve(files, main)
    exp = res.toks
    got = r["toks"]
    problems = []
    if not got or got[-1][0] != L.T_EOF:
        problems.append("stream does not end with an EOF token")
    if sum(1 for t in got if t[0] == L.T_EOF) != 1:
        problems.append("not exactly one EOF token")
    body = got[:-1] if got and got[-1][0] == L.T_EOF else got
    if not res.malformed:
        if len(body) != len(exp):
            problems.append("token count %d, reference %d" % (len(body), len(exp)))
        for i, (g, e) in enumerate(zip(body, exp)):
            if (g[0], g[1], g[2], g[3]) != (e[0], e[1], e[2], e[3]):
                problems.append("token %d: scanner %r, reference %r" % (i, tuple(g), e))
                break
    if problems:
        part["violations"].append({"signature": "tokens-differ:" + variant if False else "tokens-differ",
                                   "message": "[%s scanner] " % variant + "; ".join(problems[:4]),
                                   "case": {"mode": "scan", "main": main, "files": files, "opts": []},
                                   "expected": exp[:50], "observed": got[:50]})
        return False
    return True


def work(spec):
    part = harness.new_partial()
    inputs = gen_cases(spec)
    cases = [{"mode": "scan", "main": m, "files": f, "opts": []} for f, m in inputs]
    outs = {}
    for variant in ("generated", "committed"):
        outs[variant], _ = common.run_batch(cases, variant=variant)
    for idx, (files, main) in enumerate(inputs):
        part["evals"] += 1
        ok = True
        obs = {}
        for variant in ("generated", "committed"):
            r = outs[variant][idx]
            if common.abnormal(ID, cases[idx], r, part, "while scanning (%s scanner)" % variant):
                ok = False
                continue
            obs[variant] = r
            ok = judge_one(files, main, r, variant, part) and ok
        if len(obs) == 2 and obs["generated"]["toks"] != obs["committed"]["toks"]:
            part["violations"].append({"signature": "scanner-variants-differ",
                                       "message": "committed lex.yy.c and the scanner generated from lexer.l disagree",
                                       "case": common.slim_case(cases[idx]), "expected": obs["generated"]["toks"][:40],
                                       "observed": obs["committed"]["toks"][:40]})
            ok = False
        if ok:
            nt = len(obs["generated"]["toks"]) - 1
            part["stats"]["tokens-compared"] += 2 * nt
            part["stats"]["inputs:" + spec["kind"]] += 1
            if len(files) > 1:
                part["stats"]["multi-file-inputs"] += 1
            if nt >= 1:
                part["nontrivial"].append(harness.chash([files, main]))
            if spec["kind"] == "far":
                part["stats"]["max-line-number-compared"] = max(part["stats"]["max-line-number-compared"], max(t[3] for t in obs["generated"]["toks"]))
            if len(part["samples"]) < 1 and nt >= 3 and spec["kind"] not in ("exh", "far"):
                part["samples"].append({"files": files, "tokens": obs["generated"]["toks"][:12]})
    return part


def finish(merged, tier, seed):
    same = build.scanner_files_identical()
    merged["stats"]["committed_lex_yy_c_identical_to_flex_output"] = 1 if same else 0
    return {"exhaustive": True, "exhaustive_scope": "all strings of length <= %d over %r" % (4 if tier == "quick" else 5, ALPHABET),
            "scanner_variants": ["generated (flex 2.6.4 on lexer.l)", "committed (lex.yy.c in the tree)"]}


def replay(case):
    part = harness.new_partial()
    cases = [{"mode": "scan", "main": case["main"], "files": case["files"], "opts": []}]
    for variant in ("generated", "committed"):
        out, _ = common.run_batch(cases, variant=variant)
        if not common.abnormal(ID, cases[0], out[0], part):
            judge_one(case["files"], case["main"], out[0], variant, part)
    return part["violations"]
