"""C01 - compiled programs compute the LOOP/WHILE/GOTO reference semantics (DESIGN 4, C01)."""
from .. import harness
from ..gen import layouts, macrosets, programs
from ..ref import macros as RM, pipeline
from . import common

ID = "C01"
LEVEL = "exploration"
TECHNIQUE = "reference-model monitor: source-level interpreter (R1-R5) vs sanitizer-instrumented VM runs on generated programs"
FLAVOURS = [("asan", "generated")]
RULE = ("generated programs (0-3 definitions, nested LOOP/WHILE, labels, GOTO/IF into and out of loops, nested calls, "
        "STOP, +/- sugar, library and random macros incl. macros with 11-26 slots) x {canonical, random layout, multi-file}, long-distance jumps, and 16 kinds of sources with one dimension past 2^8 "
        "(variables, definitions, parameters, labels, nesting, call depth, identifier length, statements per line, files, include depth, macro arguments / slots / uses); every case is compiled "
        "and run under ASan+UBSan and its final activations are compared with the reference interpreter; "
        "non-trivial = reference terminated in range and executed >= 1 loop iteration or call; distinct by SHA-1 of the files")
ASSUMPTIONS = [
    "reference models R1-R5 (vlib/ref) are the trusted base; they are written from the documentation and self-tested on the repository's own examples",
    "A1: a jump into a LOOP body uses that loop's current remaining-iterations count (0 unless the loop was entered)",
    "not judged: executions whose reference values reach 2^31-1 (C20), sources needing >= 1024 rewrites, duplicate labels/parameters",
]

VARIANTS = ["canonical", "layout", "files", "libmacros", "libmacros-layout", "rndmacros", "boundary", "nestedcalls", "big", "varbody"]
PER_CHUNK = 60


def plan(tier, seed):
    n = 3000 if tier == "quick" else 60000
    budget = 20000 if tier == "quick" else 200000
    specs = [{"seed": seed, "chunk": i, "n": PER_CHUNK, "budget": budget} for i in range(n // PER_CHUNK)]
    # jumps over more than 2^15 / 2^16 instructions (few: each program has ~50k instructions)
    specs += [{"seed": seed, "chunk": 900000 + i, "n": 0, "budget": 400000, "long": i} for i in range(5 if tier == "quick" else 15)]
    # sources that are ordinary except for one dimension pushed past 2^8 / 2^16 (variables, definitions, parameters, labels, nesting,
    # call depth, identifier length, statements per line, files, include depth, macro slots / arguments / uses)
    specs += [{"seed": seed, "chunk": 950000 + i, "n": 0, "budget": 400000, "scale": i} for i in range(32 if tier == "quick" else 80)]
    return specs


def make_source(r, variant):
    """-> (files, main, tags)"""
    o = programs.Opts()
    if variant == "boundary":
        o.boundary = True
    if variant == "big":
        # many definitions (high label numbers, long jump distances), long bodies, deep nesting, more parameters
        o = programs.Opts(max_defs=8, max_params=4, max_depth=5, main_len=(6, 20), body_len=(2, 6), call_depth=3, p_label=0.3)
    if variant in ("libmacros", "libmacros-layout"):
        return macrosets.library_program(r, layout=(variant == "libmacros-layout"))
    if variant == "rndmacros":
        return macrosets.random_macro_program(r)
    if variant == "nestedcalls":
        return nested_calls_source(r)
    if variant == "varbody":
        return varbody_source(r)
    g = programs.Gen(r, o)
    p = g.program()
    kw = programs.Speller(r if r.random() < 0.5 else None)
    lines = programs.to_lines(p, kw)
    if variant == "layout":
        toks = [t for l in lines for t in l]
        return {"main": layouts.random_layout(toks, r)}, "main", []
    if variant == "files":
        if r.random() < 0.5:
            f, m = layouts.split_lines(lines, r, repeat=r.random() < 0.4)
        else:
            f, m = layouts.split_tokens([t for l in lines for t in l], r)
        return f, m, []
    return {"main": layouts.canonical(lines)}, "main", []


def varbody_source(r):
    """the same few macro PATTERNS in every source of this variant, but with bodies, priorities and positions that differ
    from source to source (a driver process compiles many of them one after the other)"""
    k = r.randint(1, 9)
    bodies_step = ["$0 := $0 + %d" % k, "$0 := $0 + %d ; $0 := $0 + 1" % k, "LOOP $0 DO w := w + %d END" % k, "$0 := %d" % k]
    bodies_op = ["RUN add WITH $0, $1 END", "RUN sub WITH $0, $1 END", "RUN add WITH $1, RUN add WITH $0, %d END END" % k, "$0", "$1"]
    bodies_twice = ["$0 ; $0", "$0", "#0 := 2 ; LOOP #0 DO $0 END", "#0 := %d ; LOOP #0 DO $0 END" % (k % 4)]
    defs = ["DEFINE %sSTEP <ID> AS %s END DEFINE" % (r.choice(["", "PRIO 3 ", "PRIO 8 "]), r.choice(bodies_step)),
            "DEFINE %s<V> @ <V> AS %s END DEFINE" % (r.choice(["PRIO 5 ", "PRIO 6 "]), r.choice(bodies_op)),
            "DEFINE TWICE <P> ECIWT AS %s END DEFINE" % r.choice(bodies_twice)]
    r.shuffle(defs)
    pad = "\n" * r.randint(0, 3)
    vars_ = ["x", "y", "z"]
    lines = ["%s := %d ;" % (v, r.randint(0, 4)) for v in vars_]
    n = r.randint(2, 5)
    for i in range(n):
        q = r.random()
        if q < 0.35:
            l = "STEP %s" % r.choice(vars_)
        elif q < 0.7:
            l = "%s := %s @ %s" % (r.choice(vars_), r.choice(vars_ + ["2"]), r.choice(vars_ + ["1"]))
        else:
            l = "TWICE STEP %s ; %s := %s + 1 ECIWT" % (r.choice(vars_), r.choice(vars_), r.choice(vars_))
        lines.append(l + (" ;" if i + 1 < n else ""))
    name = r.choice(["main", "main", "prog.theo"])
    return {name: pad + macrosets.HELPERS + "\n".join(defs) + "\n" + "\n".join(lines)}, name, ["varbody"]


def nested_calls_source(r):
    """routines that start with IF / WHILE (their lowest registers are temporaries) and calls whose arguments are
    calls again, in every argument position"""
    lines = []
    nd = r.randint(2, 3)
    ar = []
    for i in range(nd):
        a = r.randint(1, 3)
        ar.append(a)
        ps = ["p%d" % j for j in range(a)]
        lines.append("PROGRAM f%d IN %s DO" % (i, " , ".join(ps)))
        body = []
        if r.random() < 0.6:
            body.append(r.choice(["IF %s = 99 THEN GOTO e%d ;" % (ps[0], i), "WHILE t != 0 DO\nt := t - 1\nEND ;"]))
        body.append("x0 := %s + %d ;" % (ps[-1], r.randint(0, 3)))
        if i > 0 and r.random() < 0.7:
            body.append("x0 := " + call(r, i - 1, ar, ps + ["x0"], 1) + " ;")
        body.append("e%d : x0 := x0 + %s" % (i, r.choice(["1", "2"])) if False else "e%d : x0 := x0 + 1" % i)
        lines += "\n".join(body).split("\n")
        lines.append("END")
    vars_ = ["x", "y", "z"]
    first = r.choice(["IF x = 5 THEN GOTO fin ;", "WHILE y != 0 DO\ny := y - 1\nEND ;", "x := 2 ;"])
    lines += first.split("\n")
    for k in range(r.randint(2, 5)):
        lines.append("%s := %s ;" % (r.choice(vars_), call(r, r.randrange(nd), ar, vars_, 0)))
    lines.append("fin : z := z + 1")
    return {"main": "\n".join(lines)}, "main", ["nestedcalls"]


def call(r, i, ar, vars_, depth):
    args = []
    for _ in range(ar[i]):
        q = r.random()
        if q < 0.45 and depth < 2:
            args.append(call(r, r.randrange(i + 1) if depth else r.randrange(len(ar)) if False else r.randrange(i + 1), ar, vars_, depth + 1))
        elif q < 0.75:
            args.append(r.choice(vars_))
        else:
            args.append(str(r.randint(0, 4)))
    return "RUN f%d WITH %s END" % (i, " , ".join(args))


def prepare(spec):
    """generate sources, run the reference, build driver cases"""
    r = common.rng(spec["seed"], "C01", spec["chunk"])
    items = []
    if "long" in spec:
        srcs = programs.long_distance_sources(r)
        text, kind = srcs[spec["long"] % len(srcs)]
        return [build_item({"main": text}, "main", spec["budget"], "long-distance-jumps")]
    if "scale" in spec:
        srcs = programs.scale_sources(r, small=spec["scale"] < 16, large=16 <= spec["scale"] < 32)   # smallest, largest, then random sizes
        files, main, kind = srcs[spec["scale"] % len(srcs)]
        extra = programs.no_variable_sources(r) if spec["scale"] % 8 == 0 else []
        return [build_item(files, main, spec["budget"], kind)] + [build_item(f_, m_, 2000, k_) for f_, m_, k_ in extra]
    for k in range(spec["n"]):
        variant = VARIANTS[(spec["chunk"] * spec["n"] + k) % len(VARIANTS)]
        files, main, tags = make_source(r, variant)
        items.append(build_item(files, main, spec["budget"], variant))
    return items


def build_item(files, main, budget, variant="replay"):
    f = pipeline.front(files, main)
    it = {"files": files, "main": main, "variant": variant, "front": f, "status": None}
    if not f.verdict or f.excluded or f.nrewrites >= 1024:
        it["skip"] = "ref-rejected: " + f.reason if not f.verdict else "excluded"
        vm_budget = 2000
    else:
        status, interp = pipeline.run(f, budget)
        it["status"] = status
        it["interp"] = interp
        T = max(8, f.parser.max_stmt_tokens)
        vm_budget = 16 * T * interp.steps + 256 if status == "done" else max(budget // 4, 1)
        if status == "range":
            vm_budget = 2000
    it["case"] = {"mode": "run", "main": main, "files": files,
                  "opts": [("budget", vm_budget), ("program", 0), ("abandon", 20)]}
    it["vm_budget"] = vm_budget
    return it


def judge(items, results, part):
    for it, r in zip(items, results):
        part["evals"] += 1
        part["stats"]["variant:" + it["variant"]] += 1
        case = it["case"]
        if "skip" in it:
            part["stats"]["skipped-" + it["skip"].split(":")[0]] += 1
            # a crash on a source the reference rejects is C02's business, not C01's
            continue
        if it["status"] == "range":
            part["stats"]["nj-range"] += 1   # values leave the word range: C20 decides those
            continue
        if common.abnormal(ID, case, r, part, "on a source the reference accepts"):
            continue
        if not r["ok"]:
            # accepted by the reference, rejected by the compiler: C04 decides that; C01 only speaks
            # about sources the compiler accepts
            part["stats"]["compiler-rejected"] += 1
            continue
        status = it["status"]
        interp = it["interp"]
        if r.get("monitor") and r["monitor"].startswith("C03"):
            part["violations"].append({"signature": "monitor:" + r["monitor"].split(" at ")[0][:60],
                                       "message": "execution left its frame: " + r["monitor"],
                                       "case": common.slim_case(case)})
            continue
        if status == "budget":
            part["stats"]["ref-nonterminating"] += 1
            if r["done"]:
                part["violations"].append({
                    "signature": "termination:vm-halts-reference-does-not",
                    "message": "reference still running after %d steps, VM halted after %d instructions"
                               % (interp.steps, r["steps"]), "case": common.slim_case(case)})
            else:
                part["nontrivial"].append(harness.chash(it["files"]))
            continue
        # reference terminated
        if not r["done"]:
            part["violations"].append({
                "signature": "termination:reference-halts-vm-does-not",
                "message": "reference halted after %d steps, VM not at HALT after %d instructions"
                           % (interp.steps, r["steps"]), "case": common.slim_case(case),
                "expected": interp.final()})
            continue
        exp = interp.final()
        obs = r["acts"]
        problems = []
        if r.get("execute_agrees") is False:
            problems.append("VM::execute() ends in another state than executeSingle() steps: %s" % r.get("execute_acts"))
        if len(exp) != len(obs):
            problems.append("live activations: reference %d, VM %d" % (len(exp), len(obs)))
        else:
            for k, ((rname, rvars), (_mi, ovars)) in enumerate(zip(exp, obs)):
                for name, val in rvars.items():
                    if name.startswith(RM.TMP_PREFIX):
                        continue
                    if name not in ovars:
                        problems.append("activation %d (%s): variable %s missing" % (k, rname, name))
                    elif ovars[name] != val:
                        problems.append("activation %d (%s): %s = %d, reference %d" % (k, rname, name, ovars[name], val))
        if problems:
            part["violations"].append({"signature": "values:" + it["variant"] if False else "values-differ",
                                       "message": "; ".join(problems[:6]), "case": common.slim_case(case),
                                       "expected": exp, "observed": obs})
            continue
        part["stats"]["agree-terminated"] += 1
        part["stats"]["vm-instructions"] += r["steps"]
        part["stats"]["ref-steps"] += interp.steps
        for ft in interp.feat | it["front"].parser.features:
            part["stats"]["shape:" + ft] += 1
        if len(exp) > 1:
            part["stats"]["shape:final-activations>1"] += 1
        if it["front"].nrewrites:
            part["stats"]["with-rewrites"] += 1
        if it["front"].has_user_macros:
            part["stats"]["with-user-macros"] += 1
        if interp.loop_iters >= 1 or interp.calls >= 1:
            part["nontrivial"].append(harness.chash(it["files"]))
        if len(part["samples"]) < 2 and interp.calls and interp.loop_iters:
            part["samples"].append({"files": it["files"], "reference_final": exp, "vm_final": obs,
                                    "vm_instructions": r["steps"], "reference_steps": interp.steps})


def work(spec):
    part = harness.new_partial()
    items = prepare(spec)
    live = [it for it in items if "skip" not in it]
    for it in items:
        if "skip" in it:
            part["evals"] += 1
            part["stats"]["skipped-" + it["skip"].split(":")[0]] += 1
    results, notes = common.run_batch([it["case"] for it in live])
    judge(live, results, part)
    return part


def replay(case):
    part = harness.new_partial()
    opts = dict((k, v) for k, v in case["opts"])
    it = build_item(case["files"], case["main"], 200000)
    results, notes = common.run_batch([it["case"]])
    judge([it], results, part)
    return part["violations"]
