"""C09 - macro expansion is faithful substitution: highest priority, leftmost, longest."""
import itertools

from .. import harness
from ..gen import macrosets
from . import common, macrocommon

ID = "C09"
LEVEL = "exploration"
TECHNIQUE = "reference-model monitor: backtracking pattern matcher + candidate ordering + body instantiation (R3, no LR machinery) replays every rewrite reported by the hook in apply_macros step by step, under ASan+UBSan; exhaustive short token streams for fixed macro families"
FLAVOURS = [("asan", "generated")]
RULE = ("(1) exhaustive: ALL token streams up to length L (quick 4-5, thorough 5-7 by vocabulary size; 16 streams per engine call, separated by a barrier operator no pattern or slot can match) over a small vocabulary for fixed macro families (equal-priority ties, "
        "'a b' vs 'a b c' in both definition orders, literal-text constraints, infix operators at distinct and equal priorities, call syntax, "
        "statement macros with nested slots, all five slot kinds); (2) random: generated programs using the library and random deterministic macros, "
        "definition order shuffled; every rewrite event (definition, start, length, stream after) must be one of the reference's best candidates under "
        "(priority desc, start asc, length desc) for the stream before it, the stream after must be prefix + body[$n := slot n] + suffix, and when the "
        "engine stops without budget error the reference must find no match; non-trivial = >= 1 rewrite; distinct by SHA-1 of the source")
ASSUMPTIONS = ["R3 (vlib/ref/macros.py) is written from the documented slot grammar and the property text",
               "not judged: slot fillers outside the documented slot grammar (empty argument list, two labels on one statement), non-deterministic patterns (C12)"]

FAMILIES = {
    "prefix_tie": ("DEFINE a b c AS LONG END DEFINE\nDEFINE a b AS SHORT END DEFINE\n", ["a", "b", "c", "x"]),
    "prefix_tie_rev": ("DEFINE a b AS SHORT END DEFINE\nDEFINE a b c AS LONG END DEFINE\n", ["a", "b", "c", "x"]),
    "prefix_tie3": ("DEFINE a b AS S2 END DEFINE\nDEFINE a AS S1 END DEFINE\nDEFINE a b c AS S3 END DEFINE\n", ["a", "b", "c"]),
    "infix": ("DEFINE PRIO 10 <V> + <V> AS RUN add WITH $0, $1 END END DEFINE\nDEFINE PRIO 20 <V> * <V> AS RUN mul WITH $0, $1 END END DEFINE\n"
              "DEFINE PRIO 5 ( <V> ) AS $0 END DEFINE\n", ["a", "1", "+", "*", "(", ")"]),
    "equalprio": ("DEFINE PRIO 7 <V> + <V> AS RUN add WITH $0, $1 END END DEFINE\nDEFINE PRIO 7 <V> * <V> AS RUN mul WITH $0, $1 END END DEFINE\n",
                  ["a", "2", "+", "*", ","]),
    "equalprio_rev": ("DEFINE PRIO 7 <V> * <V> AS RUN mul WITH $0, $1 END END DEFINE\nDEFINE PRIO 7 <V> + <V> AS RUN add WITH $0, $1 END END DEFINE\n",
                      ["a", "2", "+", "*", ","]),
    "call": ("DEFINE PRIO 30 <ID> ( <ARGS> ) AS RUN $0 WITH $1 END END DEFINE\nDEFINE swap <ID> <ID> AS #0 := $0 ; $0 := $1 ; $1 := #0 END DEFINE\n",
             ["f", "x", "3", "(", ")", ",", "swap"]),
    "stmt": ("DEFINE IFZ <ID> THEN <P> FI AS #0 := 1 ; LOOP $0 DO #0 := 0 END ; LOOP #0 DO $1 END END DEFINE\nDEFINE NOP AS u := 0 END DEFINE\n",
             ["IFZ", "x", "THEN", "FI", "NOP", ";", ":=", "1"]),
    "literaltext": ("DEFINE <V> ADD <V> AS RUN add WITH $0, $1 END END DEFINE\nDEFINE <ID> SUB 1 AS RUN dec WITH $0 END END DEFINE\n",
                    ["a", "ADD", "SUB", "1", "2"]),
    "slots": ("DEFINE PRIO 3 P <P> Q AS [ $0 ] END DEFINE\nDEFINE PRIO 2 A <ARGS> ! AS { $0 } END DEFINE\nDEFINE PRIO 1 <INT> ? <ID> AS $1 ? END DEFINE\n",
              ["P", "Q", "A", "!", "x", "7", ":=", ";", ",", "?"]),
    "kwspell": ("DEFINE WHEN <ID> DO <P> END AS LOOP $0 DO $1 END END DEFINE\nDEFINE <ID> then <INT> AS $0 := $1 END DEFINE\n",
                ["WHEN", "x", "DO", "do", "END", "End", "THEN", "then", ":=", "1"]),
    "swapargs": ("DEFINE <ID> <- <V> , <V> AS $0 := RUN f WITH $2 , $1 END END DEFINE\n", ["x", "1", "<", "-", ",", "y"]),
}


BARRIER = "|"   # an operator token no pattern contains and no slot can derive: matches never span it
BATCH = 16


def fam_len(vocab, tier):
    if tier == "quick":
        return 4 if len(vocab) >= 8 else 5
    return 5 if len(vocab) >= 8 else (6 if len(vocab) >= 6 else 7)


def plan(tier, seed):
    specs = []
    for name, (defs, vocab) in FAMILIES.items():
        L_ = fam_len(vocab, tier)
        for w in vocab:
            if tier != "quick":
                for w2 in vocab:
                    specs.append({"kind": "fam", "family": name, "prefix": [w, w2], "rest": L_ - 2})
            else:
                specs.append({"kind": "fam", "family": name, "prefix": [w], "rest": L_ - 1})
        specs.append({"kind": "fam", "family": name, "prefix": [], "rest": 1 if tier != "quick" else 0})
    n = 1200 if tier == "quick" else 24000
    for i in range(n // 40):
        specs.append({"kind": "rand", "seed": seed, "chunk": i, "n": 40})
    return specs


def def_variants(defs):
    import re
    lines = [l for l in defs.split("\n") if l.strip()]
    prios = [re.search(r"PRIO (\d+)", l) for l in lines]
    out = [defs]
    if sum(1 for m in prios if m) >= 2:
        nums = [m.group(1) for m in prios if m]
        rot = nums[1:] + nums[:1]
        it = iter(rot)
        out.append("\n".join(re.sub(r"PRIO \d+", lambda _m: "PRIO " + next(it), l) if re.search(r"PRIO \d+", l) else l for l in lines) + "\n")
    if len(lines) >= 2:
        out.append("\n".join(reversed(lines)) + "\n")
    return out


def inputs(spec):
    """-> (files, main, number of streams in the case)"""
    if spec["kind"] == "fam":
        defs, vocab = FAMILIES[spec["family"]]
        streams = []
        for n in range(0, spec["rest"] + 1):
            for w in itertools.product(vocab, repeat=n):
                streams.append(" ".join(spec["prefix"] + list(w)))
        # many streams per apply_macros call (the engine builds its tables once per call), separated by a barrier;
        # consecutive calls in the same driver process use variants of the definitions: priorities permuted among the
        # macros, definition order reversed - the same pattern/body text with another priority right after each other
        variants = def_variants(defs)
        for n_, i in enumerate(range(0, len(streams), BATCH)):
            chunk = streams[i:i + BATCH]
            yield {"main": variants[n_ % len(variants)] + (" %s " % BARRIER).join(chunk)}, "main", len(chunk)
    else:
        r = common.rng(spec["seed"], "C09", spec["chunk"])
        for k in range(spec["n"]):
            if k % 2:
                files, main, _ = macrosets.library_program(r, layout=(k % 4 == 3))
            else:
                files, main, _ = macrosets.random_macro_program(r)
            yield files, main, 1


def work(spec):
    part = harness.new_partial()
    ins = list(inputs(spec))
    budget = 400
    cases = [{"mode": "macro", "main": m, "files": f, "opts": [("passes", budget), ("streams", 1), ("maxevents", 400), ("reapply", 1)]} for f, m, _ in ins]
    outs, _ = common.run_batch(cases)
    for (files, main, nstreams), case, o in zip(ins, cases, outs):
        part["evals"] += nstreams
        if common.abnormal(ID, case, o, part, "while expanding macros"):
            continue
        if o.get("reapply_same") is False:
            part["violations"].append({"signature": "second-expansion-differs", "message": "apply_macros called again with the same definitions and the same tokens "
                                       "returns another stream / other errors than the first time", "case": common.slim_case(case)})
            continue
        rp = macrocommon.replay(files, main, o, budget)
        if rp.nj:
            part["stats"]["nj:" + rp.nj.split(":")[0]] += 1
            continue
        if rp.problems:
            sig, msg = rp.problems[0]
            part["violations"].append({"signature": sig, "message": msg, "case": common.slim_case(case)})
            continue
        part["stats"]["rewrites-replayed"] += rp.steps
        part["stats"]["ties-on-all-keys"] += rp.ties
        part["stats"]["second-expansions-identical"] += 1 if o.get("reapply_same") else 0
        part["stats"]["rewrites-whose-pass-number-is-not-their-index"] += rp.pass_mismatch
        part["stats"]["streams:" + (spec["family"] if spec["kind"] == "fam" else "random")] += nstreams
        if rp.final_rewritable is False:
            part["stats"]["ran-to-fixpoint"] += 1
        if rp.steps >= 1:
            if spec["kind"] == "fam":
                # count the segments (streams) that were rewritten: those whose tokens changed
                segs_in = files["main"].split("DEFINE")[-1].split(" %s " % BARRIER)
                out_text = " ".join(t[1] for t in o["out"][:-1])
                segs_out = out_text.split(" %s " % BARRIER)
                changed = [a for a, b in zip(segs_in, segs_out) if " ".join(a.split()[1:] if a is segs_in[0] else a.split()) != b] \
                    if len(segs_in) == len(segs_out) else segs_in
                for sgm in changed:
                    part["nontrivial"].append(harness.chash([spec["family"], sgm]))
            else:
                part["nontrivial"].append(harness.chash(files))
        if len(part["samples"]) < 1 and rp.steps >= 3 and spec["kind"] == "fam":
            part["samples"].append({"source": files["main"], "rewrites(pass,definition,start,length,size_after)": [e[:5] for e in o["events"][:6]],
                                    "result": " ".join(t[1] for t in o["out"])})
    return part


def finish(merged, tier, seed):
    return {"exhaustive": True, "exhaustive_scope": "all token streams up to length %s over each family's vocabulary (%d families)" % (
        "4-5" if tier == "quick" else "5-7 (by vocabulary size)", len(FAMILIES))}


def replay(case):
    part = harness.new_partial()
    c = {"mode": "macro", "main": case["main"], "files": case["files"], "opts": [tuple(o) for o in case["opts"]]}
    outs, _ = common.run_batch([c])
    if common.abnormal(ID, c, outs[0], part):
        return part["violations"]
    rp = macrocommon.replay(case["files"], case["main"], outs[0], 400)
    for sig, msg in rp.problems:
        part["violations"].append({"signature": sig, "message": msg, "case": case})
    return part["violations"]
