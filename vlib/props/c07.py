"""C07 - stepping and variable inspection are faithful to the source."""
from .. import harness
from ..gen import layouts, programs
from ..ref import pipeline
from . import common

ID = "C07"
LEVEL = "exploration"
TECHNIQUE = "reference-model monitor: source-level stepping events and variable views from R5 vs the complete stepping run of the VM (every stop), under ASan+UBSan"
FLAVOURS = [("asan", "generated")]
RULE = ("generated programs in the one-statement-per-line layout without user macros (the +/- sugar allowed), spread over 1-3 files, plus a "
        "family of repeated inclusions and sources with one dimension past 2^8 (variables, definitions, parameters, labels, nesting, call depth, identifier length, files, include depth); the VM runs in stepping mode to the end (or to the stop limit) and the sequence of reported (file,line) must "
        "equal the reference event sequence: simple statement lines, LOOP/WHILE header once per entry, END line once per exit through the "
        "condition, a program's END line before it returns, jump to a label stops on the label's line, never __standards__; at every stop each "
        "activation's view must contain every user variable of its routine with the reference value; "
        "non-trivial = >= 10 stops and >= 1 call or jump; distinct by SHA-1 of the files")
ASSUMPTIONS = ["R5's event semantics (vlib/ref/interp.py) is the property's statement made executable",
               "a stop is identified with the instruction-pointer hook: a breakpoint site executed while stepping",
               "not judged: layouts that are not one statement per line"]
KF3_SIG = "kf3:repeated-inclusion-of-single-statement-file-loses-stop"


def plan(tier, seed):
    n = 1500 if tier == "quick" else 30000
    specs = [{"seed": seed, "chunk": i, "n": 50, "kind": "gen"} for i in range(n // 50)]
    specs.append({"seed": seed, "chunk": 0, "n": 40 if tier == "quick" else 400, "kind": "repeat"})
    for i in range(2 if tier == "quick" else 20):
        specs.append({"seed": seed, "chunk": i, "n": 50, "kind": "redef"})
    for i in range(1 if tier == "quick" else 3):
        specs.append({"seed": seed, "chunk": i, "n": 0, "kind": "scale"})
    return specs


def sources(spec):
    r = common.rng(spec["seed"], "C07" + spec["kind"], spec["chunk"])
    out = []
    if spec["kind"] == "gen":
        for k in range(spec["n"]):
            o = programs.Opts()
            p = programs.Gen(r, o).program()
            lines = programs.to_lines(p, programs.Speller(r))
            if k % 3 == 0:
                files, main = {"main": layouts.canonical(lines)}, "main"
            else:
                files, main = layouts.split_lines(lines, r, max_files=3)
            out.append((files, main, "gen"))
    elif spec["kind"] == "scale":
        # ordinary one-statement-per-line sources with one dimension past 2^8: variables, definitions, parameters, labels,
        # nesting, call depth, identifier length, files, include depth
        out += programs.no_variable_sources(r)
        for files, main, kind in programs.scale_sources(r, small=spec["chunk"] == 0):
            if "macro" in kind or "one-line" in kind or kind.endswith("-4000") or kind.endswith("-70000") or kind.endswith("-1000") \
                    or (kind.endswith("-1100") and any(w in kind for w in ("locals", "parameters", "variables"))):
                continue
            out.append((files, main, kind))
    elif spec["kind"] == "redef":
        # a program name defined two or three times: same number of variables, another order of first mention
        for k in range(spec["n"]):
            names = ["a", "b", "c", "r", "s"]
            ar = r.randint(1, 3)
            lines = []
            ndef = r.randint(2, 3)
            for d in range(ndef):
                ps = r.sample(names[:3], ar)
                loc = r.sample(names[3:], 2)
                lines.append("PROGRAM f IN " + " , ".join(ps) + (" OUT " + r.choice(ps + loc) if r.random() < 0.5 else "") + " DO")
                body = ["%s := %s + %d ;" % (loc[0], ps[0], d), "%s := %s ;" % (loc[1], ps[-1]), "x0 := %s + 1" % loc[0]]
                lines += body
                lines.append("END")
                if r.random() < 0.5:
                    lines.append("PROGRAM g%d IN q DO" % d)
                    lines.append("x0 := RUN f WITH " + " , ".join(["q"] * ar) + " END")
                    lines.append("END")
            lines.append("x := RUN f WITH " + " , ".join(str(r.randint(1, 9)) for _ in range(ar)) + " END ;")
            lines.append("y := x")
            text = "\n".join(lines)
            if r.random() < 0.5:
                cut = text.index("PROGRAM f", 10)
                out.append(({"main": 'include "lib"\n' + text[cut:], "lib": text[:cut].rstrip("\n")}, "main", "redef"))
            else:
                out.append(({"main": text}, "main", "redef"))
    else:
        for k in range(spec["n"]):
            nl = 1 + k % 3
            stm = ["x := x + 1 ;", "y := x ;", "z := y + 2 ;"][:nl]
            reps = r.randint(2, 3)
            main = "x := %d ;\n" % r.randint(0, 3) + "\n".join('include "inc"' for _ in range(reps)) + "\nw := x"
            if k % 2:
                main = "n := 2 ;\nLOOP n DO\n" + "\n".join('include "inc"' for _ in range(reps)) + "\nw := x\nEND"
            out.append(({"main": main, "inc": "\n".join(stm)}, "main", "repeat%d" % nl))
    return out


def compare(files, main, kind, f, status, interp, r_, part, case):
    exp = interp.events
    obs = r_["stops"]
    problems = []
    sig = None
    if r_["initial"] != ["none", -1]:
        problems.append("location before start is %s, not none" % r_["initial"])
        sig = "initial-location"
    complete = status == "done" and r_["done"]
    n = min(len(exp), len(obs))
    if status == "done" and not r_["done"] and not r_["truncated"]:
        problems.append("VM did not reach the end")
    for i in range(n):
        e, o = exp[i], obs[i]
        if o[0] == "!":
            problems.append("executeSingle reported %s at ip %d in stepping mode although %s" % (o[2], o[1], "it is a site" if not o[2] else "it is no site"))
            sig = "stop-without-site"
            break
        if (o[0], o[1]) != (e[0], e[1]):
            problems.append("stop %d: VM reports %s:%d, reference %s:%d (previous stop %s)" % (
                i, o[0], o[1], e[0], e[1], "%s:%d" % (obs[i - 1][0], obs[i - 1][1]) if i else "-"))
            sig = "location-sequence"
            # KF3: the missing stop repeats the previous location and that file is included twice in succession
            if i and (e[0], e[1]) == (exp[i - 1][0], exp[i - 1][1]) and kind.startswith("repeat"):
                sig = KF3_SIG
            break
        # variable views
        ev = e[2]
        ov = o[3]
        if len(ev) != len(ov):
            problems.append("stop %d at %s:%d: %d activations, reference %d" % (i, o[0], o[1], len(ov), len(ev)))
            sig = "activation-count"
            break
        bad = False
        for k, (rv, (_mi, vv)) in enumerate(zip(ev, ov)):
            for name, val in rv.items():
                if name.startswith("\x00"):
                    continue
                if name not in vv:
                    problems.append("stop %d at %s:%d: activation %d does not list variable %s" % (i, o[0], o[1], k, name))
                    sig = "view-missing-variable"
                    bad = True
                elif vv[name] != val:
                    problems.append("stop %d at %s:%d: activation %d %s = %d, reference %d" % (i, o[0], o[1], k, name, vv[name], val))
                    sig = "view-value"
                    bad = True
                if bad:
                    break
            if bad:
                break
        if bad:
            break
        if o[0] == "__standards__":
            problems.append("stop in the hidden standard-macro file")
            sig = "standards-visible"
            break
    else:
        if complete and len(exp) != len(obs):
            problems.append("%d stops, reference %d events (first extra: %s)" % (
                len(obs), len(exp), (obs[n][:2] if len(obs) > n else exp[n][:2])))
            sig = "stop-count"
            if len(exp) > len(obs) and n and (exp[n][0], exp[n][1]) == (exp[n - 1][0], exp[n - 1][1]) and kind.startswith("repeat"):
                sig = KF3_SIG
    if problems:
        part["violations"].append({"signature": sig or "stepping", "message": "; ".join(problems[:3]), "case": case,
                                   "expected": [e[:2] for e in exp[:60]], "observed": [o[:2] for o in obs[:60]]})
        return False
    return True


def work(spec):
    part = harness.new_partial()
    srcs = sources(spec)
    items = []
    for files, main, kind in srcs:
        f = pipeline.front(files, main)
        if not f.verdict or f.excluded:
            part["evals"] += 1
            part["stats"]["skipped-ref-rejected"] += 1
            continue
        status, interp = pipeline.run(f, 6000, events=True, views=True, max_events=600)
        if status == "range":
            part["evals"] += 1
            part["stats"]["nj-range"] += 1
            continue
        case = {"mode": "step", "main": main, "files": files,
                "opts": [("budget", 400000), ("maxstops", len(interp.events) + 5 if status == "done" else 500), ("program", 0),
                         ("disasm", 1 if len(items) % 3 == 0 else 0)]}
        items.append((files, main, kind, f, status, interp, case))
    outs, _ = common.run_batch([it[-1] for it in items])
    for (files, main, kind, f, status, interp, case), r_ in zip(items, outs):
        part["evals"] += 1
        if common.abnormal(ID, case, r_, part):
            continue
        if not r_["ok"]:
            part["stats"]["compiler-rejected"] += 1
            continue
        if not compare(files, main, kind, f, status, interp, r_, part, common.slim_case(case)):
            continue
        nst = min(len(interp.events), len(r_["stops"]))
        part["stats"]["stops-compared"] += nst
        part["stats"]["views-compared"] += sum(len(e[2]) for e in interp.events[:nst])
        part["stats"]["complete-runs" if status == "done" else "prefix-runs"] += 1
        part["stats"]["kind:" + kind.rstrip("123")] += 1
        if len(files) > 1:
            part["stats"]["multi-file"] += 1
        if nst >= 10 and (interp.calls or interp.feat & {"goto-fwd", "goto-back", "if-taken-fwd", "if-taken-back"}):
            part["nontrivial"].append(harness.chash(files))
        if len(part["samples"]) < 1 and nst > 15 and interp.calls and len(files) > 1:
            part["samples"].append({"files": files, "first_stops": [s[:2] for s in r_["stops"][:15]],
                                    "view_at_stop_10": r_["stops"][10][3]})
    return part


def replay(case):
    part = harness.new_partial()
    files, main = case["files"], case["main"]
    f = pipeline.front(files, main)
    if not f.verdict:
        return []
    status, interp = pipeline.run(f, 6000, events=True, views=True, max_events=600)
    c = {"mode": "step", "main": main, "files": files, "opts": case["opts"]}
    outs, _ = common.run_batch([c])
    if common.abnormal(ID, c, outs[0], part) or not outs[0]["ok"]:
        return part["violations"]
    kind = "repeat" if "inc" in files and files["main"].count('include "inc"') > 1 else "gen"
    compare(files, main, kind, f, status, interp, outs[0], part, case)
    return part["violations"]
