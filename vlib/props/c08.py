"""C08 - breakpoint tables are consistent and name real source lines."""
from .. import harness
from ..gen import layouts, macrosets, programs
from ..ref import lexer as L
from . import common

ID = "C08"
LEVEL = "exploration"
TECHNIQUE = "structural monitor on the dumped breakpoint tables + R1 token-line oracle + stepping run and enable probes on the VM, under ASan+UBSan"
FLAVOURS = [("asan", "generated")]
RULE = ("generated programs (with and without macros) in random layouts and file splits, a few of them in files of up to 2^24 lines (locations beyond line 2^15, 2^16, 2^23, 2^24), biased towards a program header re-entering a line "
        "that already owns a site (END supplied by an include, header sharing a line with code); for every accepted source: location->sites and "
        "site->location must be exact inverses, listed sites = breakpoint instructions, every location is a line of a supplied file (never "
        "__standards__) on which R1 finds a token, every location reported by a stepping run is available, every available location can be "
        "enabled and every other probe is refused; non-trivial = >= 2 files or >= 2 statements on one line; distinct by SHA-1 of the files")
ASSUMPTIONS = ["R1 decides whether a token stands on a line (a token belongs to the line on which it ends)"]
SEPS_TIGHT = [" ", " ", " ", "\t", "  "]


def plan(tier, seed):
    n = 4000 if tier == "quick" else 80000
    far = [{"seed": seed, "chunk": i, "n": 3, "far": True} for i in range(2 if tier == "quick" else 12)]
    return [{"seed": seed, "chunk": i, "n": 100} for i in range(n // 100)] + far


def biased_layout(lines, r):
    """file split where an END that closes a program definition comes from an included file while the
    statement before it and the following PROGRAM header share one line"""
    toks = [t for l in lines for t in l]
    ends = [i for i in range(1, len(toks) - 1) if toks[i] in L.SPELL[L.END] and toks[i + 1] in L.SPELL[L.PROGRAM]]
    files = {}
    pieces = []
    pos = 0
    k = 0
    chosen = set(i for i in ends if r.random() < 0.7)
    tight_zone = set()
    for i in chosen:
        for j in range(max(0, i - 4), min(len(toks), i + 8)):
            tight_zone.add(j)
    out = ""
    for i, t in enumerate(toks):
        if i in chosen:
            name = "e%d" % k
            k += 1
            files[name] = r.choice(["\n", "", "\n\n", " "]) + t + r.choice(["", "\n"])
            piece = 'include "%s"' % name
        else:
            piece = t
        out += piece
        if i + 1 < len(toks):
            out += r.choice(SEPS_TIGHT) if i in tight_zone else r.choice(layouts.SEPS)
    files["main"] = out
    return files, "main"


def sources(spec):
    r = common.rng(spec["seed"], "C08", spec["chunk"])
    out = []
    if spec.get("far"):
        # statements standing on lines beyond 2^15, 2^16, 2^23, 2^24 of the main file or of an included file
        ths = layouts.FAR_THRESHOLDS[:2] if spec["chunk"] % 2 == 0 else layouts.FAR_THRESHOLDS[2:]
        for t in ths + ths[:1]:
            lines = programs.to_lines(programs.Gen(r, programs.Opts(max_defs=2)).program(), programs.Speller(r))
            files, main = layouts.far_program(r, lines, [t])
            out.append((files, main, "far"))
        return out
    for k in range(spec["n"]):
        m = k % 6
        if m == 5:
            files, main, _ = macrosets.library_program(r, layout=True)
            out.append((files, main, "macros"))
            continue
        o = programs.Opts(max_defs=4)
        p = programs.Gen(r, o).program()
        lines = programs.to_lines(p, programs.Speller(r))
        toks = [t for l in lines for t in l]
        if m == 0:
            files, main = {"main": layouts.random_layout(toks, r, tight=0.3)}, "main"
        elif m in (1, 2):
            files, main = layouts.split_tokens(toks, r, max_files=3)
        else:
            files, main = biased_layout(lines, r)
        out.append((files, main, ["layout", "split", "split", "biased", "biased"][m]))
    return out


def check_tables(files, r_):
    """-> list of problems"""
    P = []
    pb = {}
    for f, l, ss in r_["pb"]:
        pb[(f, l)] = ss
    li = {i: (f, l) for i, f, l in r_["li"]}
    inv = {}
    for loc, ss in pb.items():
        if not ss:
            P.append("location %s:%d has an empty site list" % loc)
        for s in ss:
            if s in inv:
                P.append("site %d listed twice" % s)
            inv[s] = loc
    if inv != li:
        only_li = sorted(set(li.items()) - set(inv.items()))[:3]
        only_pb = sorted(set(inv.items()) - set(li.items()))[:3]
        P.append("tables are not inverse: only in site->location %s, only in location->sites %s" % (only_li, only_pb))
    sites = [i for i, op in enumerate(r_["code"]) if op[0] in (0, 1)]
    if sorted(li) != sites:
        P.append("listed sites %s vs breakpoint instructions %s" % (sorted(set(li) - set(sites))[:4], sorted(set(sites) - set(li))[:4]))
    toklines = {}
    for (f, l) in set(pb) | set(li.values()):
        if f == "__standards__":
            P.append("location in the hidden standard-macro file: %s:%d" % (f, l))
            continue
        if f not in files:
            P.append("location in a file that was not supplied: %s:%d" % (f, l))
            continue
        if f not in toklines:
            toklines[f] = {ln for _, _, ln in L.tokenize(files[f])}
        if l not in toklines[f]:
            P.append("location %s:%d is a line without any token" % (f, l))
    avail = set(pb)
    if "avail_api" in r_ and set(tuple(x) for x in r_["avail_api"]) != avail:
        P.append("getAvailableBreakpoints() = %s differs from the keys of location->sites %s" % (
            sorted(set(tuple(x) for x in r_["avail_api"]) - avail)[:3], sorted(avail - set(tuple(x) for x in r_["avail_api"]))[:3]))
    for st in r_["stops"]:
        if st[0] == "!":
            P.append("stop without site at ip %d" % st[1])
        elif (st[0], st[1]) not in avail:
            P.append("stepping reports %s:%d which is not an available location" % (st[0], st[1]))
            break
    for f, l, ret, member in r_.get("enable", []):
        if ((f, l) in avail) != bool(ret):
            P.append("setBreakPoint(%s:%d) returned %d but the location is %savailable" % (f, l, ret, "" if (f, l) in avail else "not "))
        if bool(ret) != bool(member):
            P.append("setBreakPoint(%s:%d) returned %d but enabled-set membership is %d" % (f, l, ret, member))
    return P


def work(spec):
    part = harness.new_partial()
    srcs = sources(spec)
    cases = [{"mode": "step", "main": m, "files": f,
              "opts": [("budget", 30000), ("maxstops", 300), ("program", 1), ("views", 0), ("enable_check", 1), ("abandon", 20),
                       ("disasm", i % 2)]}   # every second program is printed with Program::disassemble() first
             for i, (f, m, _) in enumerate(srcs)]
    outs, _ = common.run_batch(cases)
    for (files, main, kind), case, r_ in zip(srcs, cases, outs):
        part["evals"] += 1
        if common.abnormal(ID, case, r_, part):
            continue
        if not r_["ok"]:
            part["stats"]["rejected:" + kind] += 1
            continue
        P = check_tables(files, r_)
        if P:
            part["violations"].append({"signature": "tables:" + " ".join(P[0].split(" ")[:3]).rstrip("0123456789:"),
                                       "message": "; ".join(P[:3]), "case": common.slim_case(case)})
            continue
        part["stats"]["accepted:" + kind] += 1
        part["stats"]["sites-checked"] += len(r_["li"])
        part["stats"]["locations-checked"] += len(r_["pb"])
        part["stats"]["multi-site-lines"] += sum(1 for _, _, ss in r_["pb"] if len(ss) > 1)
        part["stats"]["stops-cross-checked"] += len(r_["stops"])
        part["stats"]["enable-probes"] += len(r_.get("enable", []))
        if len(files) > 1 or any(len(ss) > 1 for _, _, ss in r_["pb"]):
            part["nontrivial"].append(harness.chash(files))
        if kind == "far":
            part["stats"]["max-line-of-a-location"] = max(part["stats"]["max-line-of-a-location"], max(l for _, l, _ in r_["pb"]))
        if len(part["samples"]) < 1 and len(files) > 2 and len(r_["pb"]) > 6 and kind != "far":
            part["samples"].append({"files": files, "location_to_sites": r_["pb"][:10]})
    return part


def replay(case):
    part = harness.new_partial()
    c = {"mode": "step", "main": case["main"], "files": case["files"], "opts": case["opts"]}
    outs, _ = common.run_batch([c])
    if common.abnormal(ID, c, outs[0], part) or not outs[0]["ok"]:
        return part["violations"]
    P = check_tables(case["files"], outs[0])
    if P:
        part["violations"].append({"signature": "tables", "message": "; ".join(P[:3]), "case": case})
    return part["violations"]
