"""C06 - the debugger stops exactly where it was asked to."""
from . import dbgcommon

ID = "C06"
LEVEL = "exploration"
TECHNIQUE = "reference-model monitor (R7): first stop-site on the recorded path under the current breakpoint/stepping configuration, return values, reported location and enabled-set algebra, checked after every API call; exhaustive short histories + long random ones, under ASan+UBSan"
FLAVOURS = [("asan", "generated")]
RULE = ("same workload as C05 (all histories of length L over an 8-call alphabet on 4 small programs (7 in the thorough tier) with multi-site lines, breakpoints inside "
        "callees and loops, toggling the line one is stopped on; random 20-200-call histories on generated programs); after every call: "
        "execute() must end at the first path position that is a site of an enabled line (any site while stepping) or at HALT, executeSingle() "
        "returns true exactly then, getCurrentBreak() right after such a stop is that site's location and 'none' before start / after reset, "
        "setBreakPoint succeeds exactly for available locations, the enabled set equals the model's; "
        "non-trivial = >= 1 successful enable and >= 1 stop at a site; distinct by SHA-1 of (files, history)")
ASSUMPTIONS = ["not judged: the location reported while not stopped at a site (after executeSingle()==false or at the final HALT)",
               "site = instruction listed in location->sites; consistency of the two tables is C08's subject"]


def checker(model, op, res, ob, prev, at_halt_before, out):
    exp = model.expected()
    if res["ret"] is not None and ob[0] != res["ret"]:
        what = "setBreakPoint" if op[0] in "bd" else "executeSingle"
        return ("return-value:" + what, "%s returned %d, expected %d" % (what, ob[0], res["ret"]))
    if ob[1] != exp["ip"]:
        return ("stop-position", "stopped with instruction pointer %d, the first stop on the path is %d" % (ob[1], exp["ip"]))
    if ob[2] != exp["done"]:
        return ("done-flag", "isDone %d, expected %d" % (ob[2], exp["done"]))
    if exp["cur"] is not None and (ob[3], ob[4]) != tuple(exp["cur"]):
        return ("reported-location", "getCurrentBreak reports %s:%d, expected %s:%d" % (ob[3], ob[4], exp["cur"][0], exp["cur"][1]))
    if sorted(tuple(x) for x in ob[6]) != exp["enabled"]:
        return ("enabled-set", "enabled set %s, expected %s" % (ob[6], exp["enabled"]))
    if ob[5] != exp["stepping"]:
        return ("stepping-flag", "stepping mode %d, expected %d" % (ob[5], exp["stepping"]))
    return None


def plan(tier, seed):
    return dbgcommon.plan(tier, seed, ID)


def work(spec):
    return dbgcommon.work(spec, ID, checker)


def finish(merged, tier, seed):
    return {"exhaustive": True, "exhaustive_scope": "all API histories of length %d over an 8-call alphabet on 4 small programs (7 in the thorough tier)" % (5 if tier == "quick" else 6)}


def replay(case):
    return dbgcommon.replay(case, ID, checker)
