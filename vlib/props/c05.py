"""C05 - debugging is transparent: breakpoints and stepping never change the computation."""
from . import dbgcommon

ID = "C05"
LEVEL = "exploration"
TECHNIQUE = "reference-model monitor (R7) over the recorded uninterrupted instruction path: after every debugger API call the hooked instruction pointer, variable digest and hidden-state digest must equal the path's; exhaustive short histories + long random ones, under ASan+UBSan"
FLAVOURS = [("asan", "generated")]
RULE = ("ALL histories of length L (quick 5, thorough 6; all shorter ones are their prefixes) over {execute, executeSingle, stepping on, clear, "
        "reset, enable loc A, disable loc A, enable loc B} on 4 small programs (7 in the thorough tier) (loop+call, line with several sites, callee with STOP), plus "
        "random histories of 20-200 calls (incl. stepping off, unavailable locations, inspection) on generated programs incl. non-terminating ones and five programs of unusual size (a line with 300 sites, 260 labelled lines, a call chain 130 deep, 260 included files, LOOPs nested 70 deep); "
        "after EVERY call: instruction pointer = P[k], digest of all activations' variables and digest of data words + activation geometry "
        "= those recorded at index k of the uninterrupted run, BREAK opcodes exactly at the sites of enabled lines; "
        "non-trivial = history with >= 1 successful enable and >= 1 stop at a site; distinct by SHA-1 of (files, history)")
ASSUMPTIONS = ["the uninterrupted run of the same VM build is the reference path (recorded by the driver with executeSingle on a fresh VM)",
               "hook 1 exposes instruction pointer, data words and activation geometry"]


def checker(model, op, res, ob, prev, at_halt_before, out):
    exp = model.expected()
    if ob[1] != exp["ip"]:
        return ("path-diverges", "instruction pointer %d, uninterrupted run is at %d (path index %d)" % (ob[1], exp["ip"], model.k))
    if ob[7] != exp["vdig"]:
        return ("variables-diverge", "variable values differ from the uninterrupted run at path index %d" % model.k)
    if ob[8] != exp["sdig"]:
        return ("hidden-state-diverges", "data words / activation geometry differ from the uninterrupted run at path index %d" % model.k)
    if sorted(ob[10]) != exp["breaks"]:
        return ("program-text-mutated", "BREAK opcodes at %s, expected exactly the sites of the enabled lines %s" % (sorted(ob[10]), exp["breaks"]))
    return None


def plan(tier, seed):
    return dbgcommon.plan(tier, seed, ID)


def work(spec):
    return dbgcommon.work(spec, ID, checker)


def finish(merged, tier, seed):
    return {"exhaustive": True, "exhaustive_scope": "all API histories of length %d over an 8-call alphabet on 4 small programs (7 in the thorough tier)" % (5 if tier == "quick" else 6)}


def replay(case):
    return dbgcommon.replay(case, ID, checker)
