"""C11 - macro expansion always terminates within its pass budget."""
import sys

from .. import harness
from . import common, macrocommon

ID = "C11"
LEVEL = "exploration"
TECHNIQUE = "hook-2 event count + reference-model replay (R3): number of rewrites <= budget, stream after exactly that many reference steps, 'still rewritable' test on the output, error flag; budgets swept around every family's exact need, under ASan+UBSan"
FLAVOURS = [("asan", "generated")]
RULE = ("self-reproducing, mutually recursive, linearly growing, shrinking, exactly-k-step, empty-bodied and slot-duplicating macro sets x pass budgets "
        "{1..20, 63, 64, 65, 1023, 1024} (and k-1, k, k+1 around the exact need k; terminating sets also with 65535, 65536, 2^31-1, 2^31, 2^31+1, 3*10^9, 2^32-1) through apply_macros, and budget 1024 through compile; the hook must "
        "fire at most `budget` times, the output must equal the reference stream after exactly that many steps, a too-many-substitutions error must be "
        "present whenever the reference can still rewrite the output (and absent when the expansion finished earlier; allowed when exactly the budget "
        "was needed), and compile must not mark such a result correct; non-trivial = >= 1 rewrite; distinct by (source, budget)")
ASSUMPTIONS = ["R3 decides 'rewriting still possible'",
               "KF1: slot-duplicating self-reproducing macros double the stream per pass - exercised only with budgets <= 10, wrapping macros with budgets <= 64"]
BUDGETS = list(range(1, 21)) + [63, 64, 65, 1023, 1024]
HUGE = [65535, 65536, 2 ** 31 - 1, 2 ** 31, 2 ** 31 + 1, 3000000000, 2 ** 32 - 1]


def families(r):
    """-> list of (name, source, exact need or None if divergent, max budget)"""
    F = []
    F.append(("self", "DEFINE ping AS ping END DEFINE\nping", None, 1024))
    # twins: the same rule text with a terminating body, expanded in the same driver process right before the divergent one
    F.append(("self-twin-terminating", "DEFINE ping AS pong END DEFINE\nping", 1, 1024))
    F.append(("self-again", "DEFINE ping AS ping END DEFINE\nping", None, 64))
    F.append(("mutual-twin-terminating", "DEFINE aa AS bb END DEFINE\nDEFINE bb AS cc END DEFINE\naa", 2, 1024))
    F.append(("mutual-again", "DEFINE aa AS bb END DEFINE\nDEFINE bb AS aa END DEFINE\naa", None, 64))
    F.append(("self-in-context", "DEFINE ping AS ping END DEFINE\nx := 1 ; ping ; y := 2", None, 1024))
    F.append(("grow-linear", "DEFINE grow AS x := 1 ; grow END DEFINE\ngrow", None, 1024))
    F.append(("mutual", "DEFINE aa AS bb END DEFINE\nDEFINE bb AS aa END DEFINE\naa", None, 1024))
    F.append(("mutual3", "DEFINE PRIO 3 aa AS bb cc END DEFINE\nDEFINE PRIO 2 bb AS cc END DEFINE\nDEFINE PRIO 1 cc AS aa END DEFINE\naa", None, 200))
    for k in (1, 2, 3, 5, 8, 13, 19, 20, 21, 63, 64, 65):
        src = "\n".join("DEFINE c%d AS c%d END DEFINE" % (i, i + 1) for i in range(k)) + "\nc0"
        F.append(("chain%d" % k, src, k, 1024))
    for k in (2, 4, 7, 16, 20, 33):
        F.append(("shrink%d" % k, "DEFINE eat <ID> <ID> AS eat $1 END DEFINE\neat " + " ".join("v%d" % i for i in range(k)), k - 1, 1024))
    for k in (1, 3, 6, 17, 64):
        F.append(("uses%d" % k, "DEFINE NOP AS n_ := 0 END DEFINE\n" + " ; ".join(["NOP"] * k), k, 1024))
    # macros with an EMPTY body: the budget runs out right after a substitution that produced no token at all
    for k in (1, 2, 5, 17, 64):
        F.append(("skip%d" % k, "DEFINE SKIP AS END DEFINE\nx := 1 " + " ".join(["SKIP"] * k), k, 1024))
    F.append(("skip-self", "DEFINE PRIO 9 SKIP AS END DEFINE\nDEFINE ping AS SKIP ping END DEFINE\nx := 1 ping", None, 200))
    F.append(("skip-only", "DEFINE SKIP AS END DEFINE\n" + " ".join(["SKIP"] * 30), 30, 64))
    F.append(("skip-1100", "DEFINE SKIP AS END DEFINE\nx := 1 " + " ".join(["SKIP"] * 1100), 1100, 1024))
    # divergent sets whose half-expanded stream is a perfectly valid program
    F.append(("valid-leftover-self", "DEFINE <ID> := 0 AS $0 := 0 END DEFINE\nx0 := 0", None, 1024))
    F.append(("valid-leftover-flip", "DEFINE <ID> := 0 AS $0 := 1 END DEFINE\nDEFINE <ID> := 1 AS $0 := 0 END DEFINE\nx0 := 0", None, 1024))
    F.append(("valid-leftover-grow", "DEFINE <ID> := 0 AS x1 := 1 ; $0 := 0 END DEFINE\nx0 := 0", None, 1024))
    F.append(("wrap", "DEFINE wrap <V> AS wrap RUN f WITH $0 END END DEFINE\nwrap x", None, 64))
    F.append(("dup", "DEFINE dup <P> fin AS dup $0 ; $0 fin END DEFINE\ndup x := 1 fin", None, 10))
    F.append(("prio-mix", "DEFINE PRIO 9 hi AS done END DEFINE\nDEFINE PRIO 1 lo AS lo hi END DEFINE\nlo", None, 300))
    return F


def plan(tier, seed):
    specs = []
    fams = families(None)
    # macro-mode runs: groups of three consecutive families share one driver process (call history!)
    groups = [list(range(i, min(i + 3, len(fams)))) for i in range(0, len(fams), 3)]
    for g in groups:
        per = {}
        for fi in g:
            name, src, need, maxb = fams[fi]
            bs = [b for b in BUDGETS if b <= maxb]
            if need:
                bs += [b for b in (need - 1, need, need + 1) if 1 <= b <= maxb]
                if maxb >= 1024 and need <= 64:
                    bs += HUGE      # a terminating set is done after `need` rewrites whatever the budget: the whole unsigned range is legal
            bs = sorted(set(bs))
            if tier == "quick":
                bs = [b for b in bs if b < 1000 or name in ("self", "grow-linear", "chain64") or (b in HUGE and name in ("chain5", "uses3", "shrink7", "skip5", "self-twin-terminating"))]
            per[fi] = bs
        small = {fi: [b for b in bs if b < 1000] for fi, bs in per.items()}
        allb = sorted(set(x for v in small.values() for x in v))
        runs = [(fi, b) for b in allb for fi in g if b in small[fi]]
        for i in range(0, len(runs), 40):
            specs.append({"mode": "macro", "runs": runs[i:i + 40]})
        for fi, bs in per.items():
            for b in bs:
                if b >= 1000:
                    specs.append({"mode": "macro", "runs": [(fi, b)]})
    for fi, f in enumerate(fams):
        if f[3] >= 1024 and (tier != "quick" or f[0] in ("self", "mutual", "chain5", "uses3", "grow-linear", "chain65", "valid-leftover-self", "valid-leftover-flip", "valid-leftover-grow", "skip-1100")):
            specs.append({"mode": "compile", "runs": [(fi, 1024)]})
    # compile a divergent set right after its terminating twin in the same process
    specs.append({"mode": "compile", "runs": [(1, 1024), (0, 1024)]})
    return specs


def _work(spec):
    part = harness.new_partial()
    fams = families(None)
    runs = [tuple(x) for x in spec["runs"]]
    if spec["mode"] == "compile":
        cases = [{"mode": "compile", "main": "main", "files": {"main": fams[fi][1]}, "opts": [("program", 0)]} for fi, b in runs]
        outs, _ = common.run_batch(cases, case_cpu=900)
        for (fi, b), case, o in zip(runs, cases, outs):
            name, src, need, maxb = fams[fi]
            part["evals"] += 1
            if common.abnormal(ID, case, o, part, "while compiling a divergent macro set"):
                continue
            divergent = need is None or need > 1024
            budget_err = any("too many macro substitutions" in e[1] for e in o["errors"])
            if divergent and o["ok"]:
                part["violations"].append({"signature": "unfinished-expansion-passed-on", "message":
                                           "family %s never stops rewriting, yet compile marked the result correct after %d rewrites" % (name, o["rewrites"]),
                                           "case": common.slim_case(case)})
                continue
            if divergent and not budget_err:
                part["violations"].append({"signature": "no-budget-error-from-compile", "message": "family %s: errors %s" % (name, [e[1][:70] for e in o["errors"][:3]]),
                                           "case": common.slim_case(case)})
                continue
            if not divergent and budget_err and need < 1024:
                part["violations"].append({"signature": "spurious-budget-error-from-compile", "message":
                                           "family %s needs %d rewrites but compile reports too many substitutions" % (name, need), "case": common.slim_case(case)})
                continue
            if o["rewrites"] > 1024:
                part["violations"].append({"signature": "budget-exceeded", "message": "%d rewrites inside compile (budget 1024)" % o["rewrites"],
                                           "case": common.slim_case(case)})
                continue
            part["stats"]["compile-runs"] += 1
            part["stats"]["rewrites-observed"] += o["rewrites"]
            part["nontrivial"].append(harness.chash([src, b, "compile"]))
        return part
    cases = [{"mode": "macro", "main": "main", "files": {"main": fams[fi][1]}, "opts": [("passes", b), ("streams", 0), ("maxevents", 1100)]} for fi, b in runs]
    outs, _ = common.run_batch(cases, case_cpu=900)
    for (fi, b), case, o in zip(runs, cases, outs):
        judge_macro_run(fams[fi], b, case, o, part)
    return part


def judge_macro_run(fam, b, case, o, part):
    name, src, need, maxb = fam
    files = {"main": src}
    part["evals"] += 1
    if common.abnormal(ID, case, o, part, "while expanding a divergent macro set"):
        return part
    rp = macrocommon.replay(files, "main", o, b, max_steps=1100)
    if rp.nj:
        part["inconclusive"].append("family %s not judged: %s" % (name, rp.nj))
        return part
    if rp.problems:
        sig, msg = rp.problems[0]
        part["violations"].append({"signature": sig, "message": "family %s, budget %d: %s" % (name, b, msg), "case": common.slim_case(case)})
        return part
    maxerr = any(e[0] == macrocommon.MAX_PASSES for e in o["app_errors"])
    exp_steps = b if need is None else min(b, need)
    if o["nevents"] != exp_steps:
        part["violations"].append({"signature": "rewrite-count", "message": "family %s, budget %d: %d rewrites, expected %d" % (name, b, o["nevents"], exp_steps),
                                   "case": common.slim_case(case)})
        return part
    part["stats"]["runs:" + name.rstrip("0123456789")] += 1
    part["stats"]["rewrites-observed"] += o["nevents"]
    part["stats"]["with-budget-error" if maxerr else "without-budget-error"] += 1
    if need is not None and b == need:
        part["stats"]["exactly-budget-needed:" + ("error" if maxerr else "no-error")] += 1
    part["stats"]["max-stream-size"] = max(part["stats"]["max-stream-size"], len(o["out"]))
    if o["nevents"] >= 1:
        part["nontrivial"].append(harness.chash([src, b]))
    if len(part["samples"]) < 1 and name == "mutual" and b == 5:
        part["samples"].append({"source": src, "budget": b, "rewrites": o["nevents"], "errors": [e[1] for e in o["app_errors"]],
                                "output": " ".join(t[1] for t in o["out"])})
    return part




def work(spec):
    part = _work(spec)
    for v in part["violations"]:
        if isinstance(v.get("case"), dict):
            v["case"]["spec"] = spec
    return part


def replay(case):
    """re-run the chunk the stored case came from and report the violations with the same signature family"""
    if "spec" not in case:
        return []
    from .. import harness as _h
    if hasattr(sys.modules[__name__], "plan") and case["spec"].get("kind") in ("seq", "conc"):
        plan("quick", case["spec"].get("seed", 1))   # C18: baselines are computed in plan()
    return _work(case["spec"])["violations"]
