"""C18 - compilation and execution are deterministic and share no state."""
import json
import os
import re
import shutil
import subprocess
import tempfile

import sys

from .. import harness, runner
from ..gen import layouts, macrosets, mutate, programs
from . import c10, common

ID = "C18"
LEVEL = "exploration"
TECHNIQUE = "ThreadSanitizer on concurrent compile()/VM runs with seeded jitter + byte-equality of full-result digests against per-input baselines from fresh processes (sequential histories, ASan and plain builds must agree)"
FLAVOURS = [("tsan", "generated", ("mt_drv",)), ("asan", "generated", ("mt_drv",)), ("plain", "generated", ("mt_drv",))]
RULE = ("51 inputs (accepted, erroneous, macro-heavy, multi-file, with positions inside the standard-macro file in errors and temporaries); digest = every field of the CodegenResult (code field-wise, stack maps, both breakpoint "
        "tables, messages, requests) and of a bounded execution (instruction count, final variables, location); baselines: each input alone in a fresh "
        "process (ASan build and plain build must agree); sequential: random call histories of 200 calls in one process; concurrent: 8-16 threads x "
        "100-400 calls with seeded 0-200us jitter under ThreadSanitizer (any report is a violation) and under ASan; every call's digest must equal its "
        "input's baseline; evidence counts the overlapping call pairs actually observed from the recorded start/end times; "
        "non-trivial = a call that overlapped in time with a call on another thread, or any sequential call after the first; distinct by (schedule seed, thread, index)")
ASSUMPTIONS = ["TSan only sees the interleavings that occur; jitter and repetition widen them but cannot enumerate them",
               "hook 2's callback slot is thread_local and unused in this check, so the harness shares nothing itself"]
BUDGET = 20000


def inputs(seed):
    r = common.rng(seed, "C18inputs")
    ins = []
    for i in range(14):
        p = programs.Gen(r, programs.Opts(max_defs=3)).program()
        lines = programs.to_lines(p, programs.Speller(r))
        if i % 3 == 0:
            f, m = layouts.split_lines(lines, r)
        else:
            f, m = {"main": layouts.canonical(lines)}, "main"
        ins.append((f, m))
    for i in range(8):
        f, m, _ = macrosets.library_program(r, layout=(i % 2 == 1))
        ins.append((f, m))
    for i in range(5):
        ins.append(c10.source(r))
    for i in range(5):
        f, m, _ = macrosets.random_macro_program(r)
        ins.append((f, m))
    for i in range(6):
        p = programs.Gen(r).program()
        toks = mutate.random_edits(programs.all_tokens(p), r, 2, mutate.FULL_VOCAB)
        ins.append(({"main": " ".join(toks)}, "main"))
    # several equal-priority macros that tie on start and length (the same pattern defined more than once, overloads):
    # which one is taken is not prescribed, but it has to be the same one every time
    filler = " ;\n".join("v%d := %d" % (i, i) for i in range(40))
    ins.append(({"main": "DEFINE pick AS a1 := 11 END DEFINE\nDEFINE pick AS a1 := 22 END DEFINE\nDEFINE pick AS a1 := 33 END DEFINE\n"
                         "DEFINE pick AS a1 := 44 END DEFINE\n" + filler + " ;\npick ;\npick"}, "main"))
    ins.append(({"main": "DEFINE <ID> ~ <V> AS $0 := $1 END DEFINE\nDEFINE <ID> ~ <ID> AS $0 := $1 + 1 END DEFINE\nDEFINE <ID> ~ <INT> AS $0 := 7 END DEFINE\n"
                         + filler + " ;\nx ~ v3 ;\ny ~ 5 ;\nz ~ x"}, "main"))
    ins.append(({"main": 'include "m1"\ninclude "m2"\n' + filler + " ;\nq := two 1 ;\nr := two q", "m1": "DEFINE PRIO 4 two <V> AS RUN dbl WITH $0 END END DEFINE\n"
                 "PROGRAM dbl IN a OUT a DO\nb := a ;\nLOOP b DO\na := a + 1\nEND\nEND", "m2": "DEFINE PRIO 4 two <V> AS $0 END DEFINE\nDEFINE PRIO 4 two <INT> AS 9 END DEFINE"}, "main"))
    # inputs that drive library calls into their error paths (strtol overflow, range errors): sticky per-thread state
    # such as errno must not leak into later compilations
    ins.append(({"main": "x := 100000000000000000000"}, "main"))
    ins.append(({"main": "DEFINE PRIO 99999999999999999999999 a AS $18446744073709551616 END DEFINE\nx := a"}, "main"))
    ins.append(({"main": 'include "nofile"\nx := 1'}, "main"))
    ins.append(({"a": "x := 1"}, "main"))
    # positions inside the hidden standard-macro file showing up in the result: an error located there (the +/- sugar used where no
    # value may stand), and a caller-supplied __standards__ whose macro temporaries carry that file's line in their names
    ins.append(({"main": "x1 := 2 ;\nLOOP x1 + 1 DO\nx := 1\nEND"}, "main"))
    ins.append(({"main": "y := 3 ;\nWHILE y - 1 != 0 DO\ny := 0\nEND ;\nGOTO y + 2"}, "main"))
    ins.append(({"main": "x := 5 ;\ny := 7 ;\nSAVE x ;\nSAVE y", "__standards__": "\n\nDEFINE SAVE <ID> AS #0 := $0 ; $0 := #0 ; #1 := #0 END DEFINE\n"}, "main"))
    ins.append(({"main": 'x := 5 ;\ninclude "lib"\nKEEP x', "lib": "\n\n\nDEFINE KEEP <ID> AS #3 := $0 ; $0 := #3 END DEFINE\ny := 1 ;", "__standards__": "// nothing\n"}, "main"))
    # a file with a long name (heap-allocated key) that ends in a bare include directive, as main file and as included file
    long_ = "/courses/loop_course/exercise_sheet_03/helper_definitions.theo"
    ins.append(({long_: "x := 1 ;\ny := 2\ninclude"}, long_))
    ins.append(({"main": 'a := 1 ;\ninclude "%s"\nb := 2' % long_, long_: "c := 3 ;\nInclude  // nothing follows\n"}, "main"))
    return ins


def mt(flavour, cases, threads, calls, seed, jitter, d, tag):
    binary = harness.BIN[(flavour, "generated", "mt_drv")]
    cf = os.path.join(d, "cases_%s" % tag)
    runner.write_cases(cf, cases)
    env = dict(os.environ)
    env["TSAN_OPTIONS"] = "halt_on_error=0:report_signal_unsafe=0"
    env["ASAN_OPTIONS"] = runner.ASAN_BASE + ":detect_leaks=0"
    env["UBSAN_OPTIONS"] = runner.UBSAN
    p = subprocess.run([binary, cf, str(threads), str(calls), str(seed), str(jitter), str(BUDGET)], stdout=subprocess.PIPE,
                       stderr=subprocess.PIPE, env=env, timeout=3000)
    err = p.stderr.decode("latin-1")
    try:
        out = json.loads(p.stdout.decode("latin-1"))
    except ValueError:
        out = None
    return p.returncode, out, err


_BASE = {}
_BASE_PROBLEMS = []


def plan(tier, seed):
    # baselines once, in the parent, before the workers are forked (they inherit _BASE)
    global _BASE, _BASE_PROBLEMS
    os.makedirs(runner.RUNDIR, exist_ok=True)
    d = tempfile.mkdtemp(prefix="c18b", dir=runner.RUNDIR)
    try:
        _BASE, _BASE_PROBLEMS = baselines(seed, d)
    finally:
        shutil.rmtree(d, ignore_errors=True)
    specs = [{"kind": "seq", "seed": seed, "rep": i} for i in range(3 if tier == "quick" else 20)]
    reps = 4 if tier == "quick" else 20
    for i in range(reps):
        specs.append({"kind": "conc", "flavour": "tsan", "seed": seed, "rep": i, "threads": [8, 12, 16][i % 3], "calls": 100 if tier == "quick" else 200})
    for i in range(2 if tier == "quick" else 10):
        specs.append({"kind": "conc", "flavour": "asan", "seed": seed, "rep": 100 + i, "threads": 8, "calls": 100})
    return specs


def finish(merged, tier, seed):
    ins = inputs(seed)
    for sig, msg, i in _BASE_PROBLEMS:
        merged["violations"].append({"signature": sig, "message": msg, "case": {"mode": "compile", "main": ins[i][1], "files": ins[i][0], "opts": []}})
    merged["stats"]["fresh-process-baselines"] = len(_BASE)
    merged["evals"] += 2 * len(ins)
    if len(_BASE) < len(ins) // 2:
        merged["inconclusive"].append("fewer than half of the baselines could be computed")
    return None


_base_cache = {}


def baselines(seed, d, idxs=None):
    """digest per input from a fresh process each (asan and plain must agree)"""
    ins = inputs(seed)
    res = {}
    problems = []
    from concurrent.futures import ThreadPoolExecutor

    def one(i):
        f, m = ins[i]
        case = [{"mode": "compile", "main": m, "files": f, "opts": []}]
        per = {}
        probs = []
        for fl in ("asan", "plain"):
            rc, out, err = mt(fl, case, 0, 1, 0, 0, d, "b%d%s" % (i, fl))
            if out is None:
                probs.append(("baseline-crash", "input %d crashed in a fresh %s process: %s" % (i, fl, err[-800:]), i))
                continue
            per[fl] = {(c[2]): c[5] for c in out["calls"]}
            if any(len(c) > 6 and c[6] == 0 for c in out["calls"]):
                probs.append(("vm-instances-interfere", "input %d: a VM stepped alternately with a second VM on the same program (debugger-driven, reset half way) ends differently from a VM running alone" % i, i))
        if len(per) == 2 and per["asan"] != per["plain"]:
            probs.append(("builds-disagree", "input %d: sanitised and plain build give different digests %s vs %s" % (i, per["asan"], per["plain"]), i))
        return i, per.get("asan"), probs
    with ThreadPoolExecutor(max_workers=harness.NPROC) as ex:
        for i, b, probs in ex.map(one, [i for i in range(len(ins)) if idxs is None or i in idxs]):
            problems += probs
            if b is not None:
                res[i] = b
    return res, problems


def check_calls(out, base, ins, part, what, seed_tag):
    bad = 0
    for c in out["calls"]:
        t, k, stage, s, e, dg = c[:6]
        if len(c) > 6 and c[6] == 0 and bad == 0:
            f, m = ins[k]
            part["violations"].append({"signature": "vm-instances-interfere:" + what, "message":
                                       "%s: on thread %d, input %d: a VM stepped alternately with a second, debugger-driven VM on the same program ends "
                                       "differently from a VM running alone" % (what, t, k), "case": {"mode": "compile", "main": m, "files": f, "opts": [], "schedule": seed_tag}})
            bad += 1
        if k in base and base[k].get(stage) != dg:
            if bad == 0:
                f, m = ins[k]
                part["violations"].append({"signature": "digest-differs:" + what + (":compile" if stage == 0 else ":execute"),
                                           "message": "%s: call on thread %d for input %d (%s stage) returned digest %s, fresh-process baseline %s"
                                           % (what, t, k, "compile" if stage == 0 else "execute", dg, base[k].get(stage)),
                                           "case": {"mode": "compile", "main": m, "files": f, "opts": [], "schedule": seed_tag}})
            bad += 1
    return bad


def overlaps(calls):
    """number of call pairs on different threads that overlapped in time, per stage pair"""
    calls = [c[:6] for c in calls]
    ev = sorted(calls, key=lambda c: c[3])
    n = {"compile-compile": 0, "compile-execute": 0, "execute-execute": 0}
    active = []
    inv = set()
    for c in ev:
        active = [a for a in active if a[4] > c[3]]
        for a in active:
            if a[0] != c[0]:
                key = ["compile-compile", "compile-execute", "execute-execute"][a[2] + c[2]]
                n[key] += 1
                inv.add((a[0], a[3]))
                inv.add((c[0], c[3]))
        active.append(c)
    return n, len(inv)


def _work(spec):
    part = harness.new_partial()
    os.makedirs(runner.RUNDIR, exist_ok=True)
    d = tempfile.mkdtemp(prefix="c18", dir=runner.RUNDIR)
    try:
        ins = inputs(spec["seed"])
        cases = [{"mode": "compile", "main": m, "files": f, "opts": []} for f, m in ins]
        base = _BASE
        r = common.rng(spec["seed"], "C18", spec["kind"], spec["rep"])
        if spec["kind"] == "seq":
            order = [r.randrange(len(ins)) for _ in range(200)]
            seq_cases = [cases[k] for k in order]
            for fl in ("asan", "plain"):
                rc, out, err = mt(fl, seq_cases, 0, 1, 0, 0, d, "seq")
                if out is None:
                    part["violations"].append({"signature": "crash:sequential-history", "message": "sequential history crashed (%s): %s" % (fl, err[-1500:]),
                                               "case": {"mode": "compile", "note": "history", "order": order}})
                    continue
                # map positions back to inputs
                for c in out["calls"]:
                    c[1] = order[c[1]]
                bad = check_calls(out, base, ins, part, "sequential history (%s build)" % fl, "seq%d" % spec["rep"])
                part["evals"] += len(out["calls"])
                part["stats"]["sequential-calls-compared"] += len(out["calls"])
                if not bad:
                    for i, c in enumerate(out["calls"][1:]):
                        part["nontrivial"].append("%s-seq%d-%d" % (fl, spec["rep"], i))
            return part
        # concurrent
        fl = spec["flavour"]
        sseed = harness.sub_seed(spec["seed"], "sched", spec["rep"]) % (2 ** 31)
        rc, out, err = mt(fl, cases, spec["threads"], spec["calls"], sseed, 200, d, "conc")
        nrep = len(re.findall(r"WARNING: ThreadSanitizer", err))
        if nrep:
            first = err[err.index("WARNING: ThreadSanitizer"):][:3000]
            kind = re.search(r"WARNING: ThreadSanitizer: ([^\n(]+)", err).group(1).strip()
            frames = [m_ for m_ in re.findall(r"#\d+ (\S+) (/\S+?):\d+", first) if "/VM/" in m_[1] or "/Compiler/" in m_[1]]
            where = frames[0][0] if frames else "?"
            part["violations"].append({"signature": "tsan:%s@%s" % (kind, where), "message": "%d ThreadSanitizer report(s); first:\n%s" % (nrep, first),
                                       "case": {"mode": "compile", "note": "threads=%d calls=%d schedule_seed=%d" % (spec["threads"], spec["calls"], sseed)},
                                       "sanitizer": err[-6000:]})
        if out is None:
            part["violations"].append({"signature": "crash:concurrent-run", "message": "concurrent run (%s) produced no result, exit %s: %s" % (fl, rc, err[-2000:]),
                                       "case": {"mode": "compile", "note": "threads=%d calls=%d schedule_seed=%d" % (spec["threads"], spec["calls"], sseed)}})
            return part
        bad = check_calls(out, base, ins, part, "concurrent run (%s, %d threads)" % (fl, spec["threads"]), "sched%d" % sseed)
        ov, inv = overlaps(out["calls"])
        part["evals"] += len(out["calls"])
        part["stats"]["concurrent-calls-compared"] += len(out["calls"])
        for k, v in ov.items():
            part["stats"]["overlapping-pairs:" + k] += v
        part["stats"]["runs:" + fl] += 1
        part["stats"]["tsan-reports"] += nrep
        if not bad:
            for i in range(inv):
                part["nontrivial"].append("%s-%d-%d" % (fl, sseed, i))
        if len(part["samples"]) < 1:
            part["samples"].append({"threads": spec["threads"], "calls_per_thread": spec["calls"], "schedule_seed": sseed,
                                    "first_calls(thread,input,stage,start_ns,end_ns,digest)": out["calls"][:6], "overlapping_pairs": ov})
        return part
    finally:
        shutil.rmtree(d, ignore_errors=True)




def work(spec):
    part = _work(spec)
    for v in part["violations"]:
        if isinstance(v.get("case"), dict):
            v["case"]["spec"] = spec
    return part


def replay(case):
    """re-run the chunk the stored case came from and report the violations with the same signature family"""
    if "spec" not in case:
        return []
    from .. import harness as _h
    if hasattr(sys.modules[__name__], "plan") and case["spec"].get("kind") in ("seq", "conc"):
        plan("quick", case["spec"].get("seed", 1))   # C18: baselines are computed in plan()
    return _work(case["spec"])["violations"]
