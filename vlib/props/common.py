"""Shared helpers for the property modules."""
import random

from .. import harness, runner


def drv(flavour="asan", variant="generated", name="theo_drv"):
    import os
    if os.environ.get("VERIF_COVERAGE") and flavour == "asan":
        # development aid (tools/coverage.py): run the same workload on the gcov-instrumented build
        from .. import build
        return build.build("cov", variant, drivers=(name,))[name]
    return harness.BIN[(flavour, variant, name)]


def run_batch(cases, flavour="asan", variant="generated", detect_leaks=False, case_cpu=600):
    return runner.run_cases(drv(flavour, variant), cases, flavour=flavour, detect_leaks=detect_leaks,
                            case_cpu=case_cpu)


def slim_case(case):
    """the part of a case worth storing in a replay / sample"""
    return {"mode": case["mode"], "main": case.get("main"), "files": case.get("files"),
            "opts": [list(o) for o in case.get("opts", [])]}


KF1_SIG = "kf1:macro-expansion-still-rewriting"


def abnormal(pid, case, r, part, what="while compiling/running"):
    """classify crash / timeout / abandoned results; returns True if r was abnormal"""
    if "crash" in r:
        c = r["crash"]
        if c["kind"] == "rss-limit":
            # memory exhaustion through macro growth is KF1(a); anything else is a violation
            sig = "kf1:memory-exhausted-by-macro-growth" if case.get("macro_heavy") else "crash:rss-limit"
        else:
            sig = "crash:%s@%s" % (c["kind"], c["frame"])
        part["violations"].append({"signature": sig, "message": "%s %s: %s at %s\n%s" % (
            pid, what, c["kind"], c["frame"], c["stderr"][-2500:]), "case": slim_case(case),
            "sanitizer": c["stderr"][-6000:]})
        part["stats"]["crashes"] += 1
        return True
    if "timeout" in r:
        t = r["timeout"]
        if t["strikes"] >= 2 and t["rewrites"] == 0 and t["steps"] == 0:
            part["violations"].append({"signature": "hang:no-progress", "message":
                                       "%s: case exceeded the CPU watchdog twice without any progress event" % pid,
                                       "case": slim_case(case)})
        elif t["rewrites"] > 0:
            part["violations"].append({"signature": KF1_SIG, "message": "watchdog fired while macro rewrites "
                                       "were still being reported (%d)" % t["rewrites"], "case": slim_case(case)})
        else:
            part["inconclusive"].append("%s: watchdog fired with progress (steps=%d) - inconclusive" % (pid, t["steps"]))
        part["stats"]["timeouts"] += 1
        return True
    if r.get("abandoned"):
        part["violations"].append({"signature": KF1_SIG, "message":
                                   "macro expansion still rewriting after the abandon threshold (%s rewrites)"
                                   % r.get("rewrites", r.get("nevents", "?")), "case": slim_case(case)})
        part["stats"]["abandoned"] += 1
        return True
    return False


def rng(seed, *labels):
    return random.Random(harness.sub_seed(seed, *labels))


def chunks(total, size):
    out = []
    i = 0
    while i < total:
        out.append((i, min(size, total - i)))
        i += size
    return out
