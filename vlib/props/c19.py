"""C19 - VM memory is proportional to the live activations."""
from .. import harness
from ..gen import layouts, programs
from . import common

ID = "C19"
LEVEL = "exploration"
TECHNIQUE = "inline shadow monitor on hooked VM state (data words vs live frame geometry) at every instruction boundary, under ASan+UBSan"
FLAVOURS = [("asan", "generated")]
RULE = ("call-heavy generated programs (calls inside long loops, nested and chained calls, STOP inside callees, jumps out of loops; plus call chains 130-1100 activations deep and routines with hundreds of registers / parameters); half of them with reset() in the middle of the run (also inside callees), a quarter with a snapshot copy of the machine assigned back onto it later (copy or move assignment) "
        "followed by a rerun, a third driven with stepping mode on and a fifth with every breakpoint enabled, the final HALT really dispatched; "
        "the driver checks after EVERY executed instruction (also between PREPARE and EXEC and right after RET) that the frames are "
        "contiguous from word 0 in call order and that the number of data words equals the sum of the live frame sizes; "
        "non-trivial = at least one RET executed; distinct by SHA-1 of the source")
ASSUMPTIONS = ["hook 1 (read-only accessors for data size and activation base/size) reports the VM's real state",
               "the monitor runs inside the driver (drivers/theo_drv.cpp Monitor::boundary), one evaluation per instruction boundary"]


def plan(tier, seed):
    n = 1000 if tier == "quick" else 20000
    budget = 20000 if tier == "quick" else 60000
    return [{"seed": seed, "chunk": i, "n": 50, "budget": budget} for i in range(n // 50)]


def call_heavy(r):
    o = programs.Opts(max_defs=4, max_params=3, call_depth=3, main_len=(2, 5), allow_stop=True)
    g = programs.Gen(r, o)
    p = g.program()
    # wrap a call into a long-running loop
    if p["defs"]:
        d = r.choice(p["defs"])
        n = r.choice([10, 40, 150, 400])
        call = ("call", d["name"], [("var", "k")] * len(d["params"]))
        loop = {"k": "loop", "var": "n", "body": [{"k": "assign", "var": "k", "val": ("inc", "k", 1)},
                                                  {"k": "assign", "var": r.choice(["x", "y"]), "val": call}]}
        p["main"] = [{"k": "assign", "var": "n", "val": ("const", n)}, loop] + p["main"]
    return p


def make_cases(spec):
    r = common.rng(spec["seed"], "C19", spec["chunk"])
    cases = []
    for _ in range(spec["n"]):
        p = call_heavy(r)
        text = layouts.canonical(programs.to_lines(p, programs.Speller(r)))
        opts = [("budget", spec["budget"]), ("program", 0), ("via_execute", 0)]
        q = r.random()
        if q < 0.3:
            opts.append(("stepping", 1))      # driven like a debugger: stepping mode on
        elif q < 0.5:
            opts.append(("breakall", 1))      # ... or with every breakpoint enabled
        if r.random() < 0.5:
            # reset() in the middle of the run (also while inside callees), then run on: the frames of the
            # abandoned activations must be gone as well
            pts = sorted(set(r.choice([3, 7, 12, 19, 33, 60, 110, 250, 700, 1500, 4000]) for _ in range(r.randint(1, 4))))
            opts.append(("reset_at", " ".join(map(str, pts))))
        elif r.random() < 0.5:
            # a snapshot (copy of the machine) taken early, usually in the root script, and assigned back onto the machine later,
            # usually while it is inside callees: the frames of the abandoned activations must go with them
            a = r.choice([0, 1, 2, 3, 5, 8])
            opts.append(("restore", "%d %d %d" % (a, a + r.choice([1, 2, 4, 7, 12, 19, 33, 60, 110, 250]), r.randint(0, 1))))
        cases.append({"mode": "run", "main": "main", "files": {"main": text}, "opts": opts})
    if spec["chunk"] < 3:
        for files, main, kind in programs.no_variable_sources(r):     # a root frame of zero words
            cases.append({"mode": "run", "main": main, "files": files, "opts": [("budget", 500), ("program", 0), ("via_execute", 0), ("reset_at", "1 3")]})
        # deep call chains (130-300 activations alive at once), routines with hundreds of registers / parameters / definitions
        for files, main, kind in programs.scale_sources(r, small=spec["chunk"] == 0, large=spec["chunk"] == 1):
            if any(w in kind for w in ("call-chain", "definitions", "parameters", "locals", "macro-call")):
                opts = [("budget", spec["budget"]), ("program", 0), ("via_execute", 0)]
                if spec["chunk"] == 1:
                    opts.append(("reset_at", "40 900"))
                cases.append({"mode": "run", "main": main, "files": files, "opts": opts})
    return cases


def judge(cases, outs, part):
    for case, r in zip(cases, outs):
        part["evals"] += 1
        if common.abnormal(ID, case, r, part):
            continue
        if not r["ok"]:
            part["stats"]["rejected"] += 1
            continue
        m = r.get("monitor")
        if m and m.startswith("C19"):
            part["violations"].append({"signature": "frames:" + " ".join(m.split(" ")[1:3]),
                                       "message": "at an instruction boundary: " + m + " (max data words %d, max live words %d, %d RETs)"
                                       % (r["maxdata"], r["maxlive"], r["rets"]), "case": common.slim_case(case)})
            continue
        part["stats"]["boundaries-checked"] += r["boundaries"]
        part["stats"]["rets-observed"] += r["rets"]
        part["stats"]["calls-observed"] += r["calls"]
        part["stats"]["mid-run-resets"] += r.get("resets", 0)
        part["stats"]["snapshots-assigned-back"] += r.get("restores", 0)
        part["stats"]["max-depth-seen"] = max(part["stats"]["max-depth-seen"], r["maxdepth"])
        part["stats"]["max-data-words-seen"] = max(part["stats"]["max-data-words-seen"], r["maxdata"])
        part["stats"]["halted" if r["done"] else "budget-exhausted"] += 1
        if len(r["acts"]) > 1:
            part["stats"]["stopped-inside-callee"] += 1
        if r["rets"] >= 1:
            part["nontrivial"].append(harness.chash(case["files"]))
        if len(part["samples"]) < 1 and r["rets"] > 100:
            part["samples"].append({"source": case["files"]["main"], "boundaries_checked": r["boundaries"], "rets": r["rets"],
                                    "max_data_words": r["maxdata"], "max_live_words": r["maxlive"], "max_depth": r["maxdepth"]})


def work(spec):
    part = harness.new_partial()
    cases = make_cases(spec)
    outs, _ = common.run_batch(cases)
    judge(cases, outs, part)
    return part


def merge_max(merged):
    pass


def replay(case):
    part = harness.new_partial()
    c = {"mode": "run", "main": case["main"], "files": case["files"], "opts": case["opts"]}
    outs, _ = common.run_batch([c])
    judge([c], outs, part)
    return part["violations"]
