"""C17 - reset() gives back a fresh machine and the program end is absorbing."""
from . import c05, c06, dbgcommon

ID = "C17"
LEVEL = "exploration"
TECHNIQUE = "differential monitor on hooked VM state: full observation after reset() vs a newly constructed VM, R7 model for every later call, and before/after comparison of the whole state for calls made at HALT; exhaustive short histories + long random ones, under ASan+UBSan"
FLAVOURS = [("asan", "generated")]
RULE = ("same workload as C05/C06; every history containing reset() splits as H1 . reset . H2 (several resets occur): right after reset() the complete "
        "observation (instruction pointer, isDone, current location, stepping flag, enabled set, variable digest, data words + activation "
        "geometry digest, activation count, set of BREAK opcodes) must equal that of a newly constructed VM, and every call of H2 must behave as "
        "the model predicts for a fresh machine; whenever execute/executeSingle is called at HALT the complete observation must be unchanged and "
        "executeSingle must return true; non-trivial = history with a reset after >= 1 successful enable and >= 1 stop; distinct by SHA-1 of (files, history)")
ASSUMPTIONS = ["hook 1 exposes the hidden state compared (instruction pointer, data words, activation geometry, opcodes at sites)"]


def checker(model, op, res, ob, prev, at_halt_before, out):
    if op == "r":
        model.resets += 1
        fresh = out["fresh"]
        if ob[1:] != fresh[1:]:
            names = ["ret", "ip", "done", "file", "line", "stepping", "enabled", "variables", "data+frames", "activations", "BREAK opcodes"]
            diff = [names[i] for i in range(1, len(fresh)) if ob[i] != fresh[i]]
            return ("reset-not-fresh:" + diff[0], "after reset() the machine differs from a new one in: %s (%s vs %s)" % (
                diff, [ob[names.index(d)] for d in diff][:3], [fresh[names.index(d)] for d in diff][:3]))
        return None
    if at_halt_before and op in ("e", "s"):
        if ob[1:] != prev[1:]:
            return ("end-not-absorbing", "a call at the end of the program changed the machine state")
        if op == "s" and ob[0] != 1:
            return ("end-not-absorbing:return", "executeSingle at the end returned %d" % ob[0])
    if model.resets > 0:
        return c05.checker(model, op, res, ob, prev, at_halt_before, out) or c06.checker(model, op, res, ob, prev, at_halt_before, out)
    return None


def plan(tier, seed):
    return dbgcommon.plan(tier, seed, ID)


def work(spec):
    return dbgcommon.work(spec, ID, checker)


def finish(merged, tier, seed):
    return {"exhaustive": True, "exhaustive_scope": "all API histories of length %d over an 8-call alphabet on 4 small programs (7 in the thorough tier)" % (5 if tier == "quick" else 6)}


def replay(case):
    return dbgcommon.replay(case, ID, checker)
