"""C04 - the compiler accepts exactly the programs of the language."""
from .. import harness
from ..gen import programs
from ..ref import lexer as L, macros as RM, parser as RP
from . import common

ID = "C04"
LEVEL = "exploration"
TECHNIQUE = "reference-model monitor: independent LL(1) recogniser + static rules (R4) vs Theo::compile verdict under ASan+UBSan on exhaustive 1-edit neighbourhoods of generated programs"
FLAVOURS = [("asan", "generated")]
RULE = ("generated valid macro-free sources (random keyword spellings) and ALL their single-token deletions, insertions and "
        "replacements over the language vocabulary and adjacent swaps, plus random 2-4-edit neighbours; each sequence is rendered, "
        "re-tokenised by R1, judged by R4 (sugar rewrite, grammar, callee-defined-earlier, arity, label-in-same-body, literal < 2^31-1) "
        "and compiled; verdicts must agree in both directions; non-trivial = differs from its seed and R4 consumed >= 3 tokens; "
        "distinct by SHA-1 of the text")
ASSUMPTIONS = ["R4 (vlib/ref/parser.py) is the trusted statement of the language: grammar from the header comment of parse.cpp, static rules from the property text",
               "not judged: sequences with duplicate labels or duplicate parameter names, identifiers __INC__/__DEC__, user macro definitions"]

BIG = ["2147483646", "2147483647", "2147483648", "100000000000000000000", "4294967296", "18446744073709551616"]


def vocabulary(kw):
    v = [kw(k) for k in (L.RUN, L.WITH, L.DO, L.LOOP, L.WHILE, L.GOTO, L.IF, L.THEN, L.STOP, L.END, L.PROGRAM, L.IN, L.OUT)]
    v += [",", ";", ":", ":=", "!= 0", "=", "(", ")", "+", "-"]
    v += ["x", "y", "f0", "f1", "nosuchprog", "L1", "L2", "nolabel", "p0", "x0"]
    v += ["0", "1", "3"] + BIG
    v += ["AS", "<V>", "$0", "#0", "PRIO", "ENDDEF", "*", "!", "\"s\""]
    return v


def plan(tier, seed):
    nseeds = 16 if tier == "quick" else 320
    specs = [{"seed": seed, "chunk": i, "thorough": tier != "quick"} for i in range(nseeds)]
    # sources that need 1021, 1022, 1023 applications of the built-in sugar: all below the documented budget of 1024 passes
    specs += [{"seed": seed, "chunk": 9000 + i, "thorough": tier != "quick", "edge": 1021 + i} for i in range(3)]
    return specs


def redefinition_seed(r):
    """a program name defined several times with different parameter counts; calls that match the latest one"""
    lines = []
    ar = []
    k = r.randint(2, 3)
    for i in range(k):
        a = r.randint(0, 2)
        ar.append(a)
        ps = ["p%d" % j for j in range(a)]
        lines += ["PROGRAM", "f0"] + (["IN"] + ", ".join(ps).replace(",", " ,").split() if ps else []) + ["DO", "x0", ":=", r.choice(ps + ["1"]), "END"]
        if r.random() < 0.5:
            lines += ["PROGRAM", "f1", "DO", "x0", ":=", "RUN", "f0", "WITH"] + " , ".join(["1"] * a).split() + ["END", "END"]
    lines += ["x", ":=", "RUN", "f0", "WITH"] + " , ".join(["3"] * ar[-1]).split() + ["END"]
    return lines


def seed_program(r):
    if r.random() < 0.3:
        return redefinition_seed(r)
    o = programs.Opts(max_defs=2, main_len=(1, 4), body_len=(1, 3), max_depth=2, init_vars=False, p_label=0.3)
    for _ in range(50):
        g = programs.Gen(r, o)
        p = g.program()
        kw = programs.Speller(r)
        toks = programs.all_tokens(p, kw)
        if 8 <= len(toks) <= 60:
            return toks
    return toks


def neighbours(toks, r, vocab, thorough):
    out = [list(toks)]
    n = len(toks)
    for i in range(n):
        out.append(toks[:i] + toks[i + 1:])
    for i in range(n - 1):
        if toks[i] != toks[i + 1]:
            out.append(toks[:i] + [toks[i + 1], toks[i]] + toks[i + 2:])
    for i in range(n + 1):
        for w in vocab:
            out.append(toks[:i] + [w] + toks[i:])
    for i in range(n):
        for w in vocab:
            if w != toks[i]:
                out.append(toks[:i] + [w] + toks[i + 1:])
    extra = 600 if not thorough else 900
    for _ in range(extra):
        t = list(toks)
        for _ in range(r.randint(2, 4)):
            op = r.random()
            pos = r.randrange(len(t) + 1) if t else 0
            if op < 0.3 and pos < len(t):
                del t[pos]
            elif op < 0.6:
                t.insert(pos, r.choice(vocab))
            elif op < 0.9 and pos < len(t):
                t[pos] = r.choice(vocab)
            elif pos + 1 < len(t):
                t[pos], t[pos + 1] = t[pos + 1], t[pos]
        out.append(t)
    return out


def reference_verdict(text):
    """-> (accept, reason, excluded, consumed)"""
    toks = [(k, t, "main", l) for k, t, l in L.tokenize(text)]
    if any(t[0] in (L.DEFINE, L.INCLUDE) for t in toks):
        return None
    stream, n, ex = RM._sugar_fast(toks, 1024)
    if ex or n >= 1024:
        return None
    p = RP.Parser(stream)
    try:
        p.parse()
        ok, reason = True, ""
    except RP.Rej as e:
        ok, reason = False, str(e)
    return ok, reason, (p.dup_params or p.dup_labels or p.uses_builtin_names), p.i


def work(spec):
    part = harness.new_partial()
    r = common.rng(spec["seed"], "C04", spec["chunk"])
    kw = programs.Speller(r)
    vocab = vocabulary(kw)
    toks = seed_program(r)
    seqs = neighbours(toks, r, vocab, spec["thorough"])
    if "edge" in spec:
        n = spec["edge"]
        toks = " ;\n".join("v%d := v%d %s %d" % (i % 7, (i + 1) % 7, "+-"[i % 2], i % 4) for i in range(n)).split(" ")
        toks = [t for w in toks for t in ([w] if "\n" not in w else [w.replace("\n", "")])]
        seqs = [toks, toks + [";", "z", ":=", "v1"], toks[:-3] + ["v1"], toks + [";"]]
    seen = set()
    items = []
    seed_text = " ".join(toks)
    for s in seqs:
        text = " ".join(s)
        if text in seen:
            continue
        seen.add(text)
        v = reference_verdict(text)
        if v is None:
            continue
        items.append((text, v))
    cases = [{"mode": "compile", "main": "main", "files": {"main": t}, "opts": [("program", 0), ("stages", 1 if i % 5 == 0 else 0)]} for i, (t, v) in enumerate(items)]
    outs, _ = common.run_batch(cases)
    for (text, (ok, reason, excluded, consumed)), case, r_ in zip(items, cases, outs):
        part["evals"] += 1
        if common.abnormal(ID, case, r_, part, "while compiling a token sequence"):
            continue
        if excluded:
            part["stats"]["nj-excluded"] += 1
            continue
        if r_["ok"] != ok:
            direction = "compiler-accepts-nonprogram" if r_["ok"] else "compiler-rejects-program"
            part["violations"].append({
                "signature": direction + (":" + reason.split(" at ")[0][:40] if not ok else ""),
                "message": "%s: reference says %s%s; compiler errors: %s\n%s" % (
                    direction, "accept" if ok else "reject", (" (" + reason + ")") if reason else "",
                    [e[1][:80] for e in r_["errors"][:3]], text),
                "case": common.slim_case(case)})
            continue
        if r_.get("stages", [1, 1])[0] != 1:
            part["violations"].append({"signature": "verdict-depends-on-call-history:second-gen-differs",
                                       "message": "the same text through parse() + gen(): generating code twice from one tree gives two different results\n" + text,
                                       "case": common.slim_case(case)})
            continue
        if "stages" in r_:
            part["stats"]["parse-once-generate-twice-agree"] += 1
            # (whether parse() + gen() equals compile() is only counted: no property relates the two entry points)
            part["stats"]["parse+gen-equals-compile"] += r_["stages"][1]
        if not r_["ok"] and not r_["errors"]:
            part["violations"].append({"signature": "rejected-without-error", "message": "marked incorrect with an empty error list\n" + text,
                                       "case": common.slim_case(case)})
            continue
        part["stats"]["accepted" if ok else "rejected"] += 1
        if not ok:
            part["stats"]["reject-reason:" + " ".join(reason.split(" at ")[0].split(" got ")[0].split(" ")[:2])[:32]] += 1
        if text != seed_text and consumed >= 3:
            part["nontrivial"].append(harness.chash(text))
            if ok:
                part["stats"]["accepted-mutants"] += 1
        if len(part["samples"]) < 2 and text != seed_text and ((ok and len(part["samples"]) == 0) or (not ok and len(part["samples"]) == 1)):
            part["samples"].append({"text": text, "reference": "accept" if ok else "reject: " + reason, "compiler_ok": r_["ok"]})
    return part


def finish(merged, tier, seed):
    if merged["stats"]["accepted-mutants"] < 100:
        merged["inconclusive"].append("fewer than 100 accepted mutants observed (%d): the accept direction was not exercised"
                                      % merged["stats"]["accepted-mutants"])
    return {"exhaustive_scope": "per seed program: all 1-token deletions, insertions/replacements over the vocabulary, adjacent swaps"}


def replay(case):
    part = harness.new_partial()
    text = case["files"]["main"]
    v = reference_verdict(text)
    if v is None:
        return []
    c = {"mode": "compile", "main": "main", "files": {"main": text}, "opts": [("program", 0)]}
    outs, _ = common.run_batch([c])
    if common.abnormal(ID, c, outs[0], part):
        return part["violations"]
    if not v[2] and outs[0]["ok"] != v[0]:
        part["violations"].append({"signature": "verdict-differs", "message": "reference %s, compiler %s" % (v[0], outs[0]["ok"]),
                                   "case": case})
    return part["violations"]
