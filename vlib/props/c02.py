"""C02 - compilation is total: every input yields a result, never a crash or a hang."""
import os
import resource
import subprocess

from .. import build, harness
from ..gen import layouts, macrosets, mutate, programs
from ..ref import includes
from . import c10, common

ID = "C02"
LEVEL = "exploration"
TECHNIQUE = "sanitizers as oracle (ASan+UBSan+_GLIBCXX_ASSERTIONS abort, per-case heap delta via __sanitizer_get_current_allocated_bytes confirmed by LSan, valgrind memcheck sample) + result-shape predicate + progress-aware CPU watchdog, on mutated / truncated / hostile inputs"
FLAVOURS = [("asan", "generated"), ("plain", "generated")]
RULE = ("(a) single-token deletions / insertions / replacements / adjacent swaps and 2-4-edit neighbours of generated valid programs (plain, with library "
        "macros, with temporaries) over the full vocabulary incl. stray template / insertion / temporary tokens, DEFINE fragments and out-of-range numbers; "
        "(b) truncation at every byte; (c) token soup; (d) file-map shapes: absent main, empty files, main named __standards__, user-supplied "
        "__standards__, include cycles; (e) byte noise incl. NUL and 0x80-0xFF; (f) divergent macro sets that really exhaust the 1024 passes; every case: "
        "no sanitizer/assertion report, heap delta 0, returns (watchdog), and the result is either correct with no errors or incorrect with >= 1 error, each "
        "with a non-empty message and a location in a supplied file / __standards__ / '-' with a line inside that file; "
        "non-trivial = the input has >= 3 tokens; distinct by SHA-1 of the file map")
ASSUMPTIONS = ["inputs are bounded (<= 64 KiB, <= 4 files); allocation failure is not injected",
               "KF1: macro sets still rewriting after 20 CPU-seconds are abandoned through hook 2 and reported as known finding; KF2: 200k-statement sources overflow the stack"]
STD_LINES = includes.STANDARD_MACROS.count("\n") + 1


def plan(tier, seed):
    specs = []
    q = tier == "quick"
    ab = 8 if q else 20
    for i in range(24 if q else 144):
        specs.append({"kind": "mut", "seed": seed, "chunk": i, "abandon": ab, "heavy_cap": 260 if q else 600})
    for i in range(8 if q else 48):
        specs.append({"kind": "trunc", "seed": seed, "chunk": i, "abandon": ab})
    for i in range(12 if q else 72):
        specs.append({"kind": "soup", "seed": seed, "chunk": i, "n": 500, "abandon": ab})
    for i in range(4 if q else 24):
        # (empty-pattern macros left by the repeated-DEFINE recovery rewrite 1024 times, ~15 s under ASan: bounded, not KF1 - give them time)
        specs.append({"kind": "shapes", "seed": seed, "chunk": i, "abandon": 60})
    for i in range(8 if q else 48):
        specs.append({"kind": "noise", "seed": seed, "chunk": i, "n": 120 if q else 400, "abandon": ab})
    for i in range(3 if q else 12):
        specs.append({"kind": "diverge", "seed": seed, "chunk": i, "abandon": ab})
    if not q:
        for i in range(12):
            specs.append({"kind": "valgrind", "seed": seed, "chunk": i, "n": 250, "abandon": 60})
    return specs


def base_source(r, k):
    """a valid source to mutate: -> (files, main)"""
    m = k % 4
    if m == 0:
        o = programs.Opts(max_defs=2, main_len=(1, 4), body_len=(1, 3))
        p = programs.Gen(r, o).program()
        return {"main": layouts.canonical(programs.to_lines(p, programs.Speller(r)))}, "main"
    if m == 1:
        files, main, _ = macrosets.library_program(r)
        return files, main
    if m == 2:
        return c10.source(r)
    files, main, _ = macrosets.random_macro_program(r)
    return files, main


def gen_cases(spec):
    r = common.rng(spec["seed"], "C02" + spec["kind"], spec["chunk"])
    k = spec["kind"]
    out = []
    if k == "mut":
        files, main = base_source(r, spec["chunk"])
        # mutate the part of the main file after the definitions as well as the definitions themselves
        victim = r.choice(list(files))
        toks = mutate.text_tokens(files[victim])
        if len(toks) > 400:
            # long library preludes: mutate a window
            a = r.randrange(0, len(toks) - 300)
            head, win, tail = toks[:a], toks[a:a + 300], toks[a + 300:]
        else:
            head, win, tail = [], toks, []
        heavy = any("DEFINE" in v for v in files.values())   # ~100 ms per compile (one LR table pair per macro)
        cap = spec["heavy_cap"] if heavy else 1800
        edits = list(mutate.single_edits(win, mutate.FULL_VOCAB, r, insert_sample=2 if heavy else 3))
        if len(edits) > cap:
            edits = r.sample(edits, cap)
        for t in edits:
            f2 = dict(files)
            f2[victim] = " ".join(head + t + tail)
            out.append((f2, main))
        for _ in range(cap // 6):
            f2 = dict(files)
            f2[victim] = " ".join(head + mutate.random_edits(win, r, r.randint(2, 4), mutate.FULL_VOCAB) + tail)
            out.append((f2, main))
    elif k == "trunc":
        files, main = base_source(r, spec["chunk"])
        if spec["chunk"] % 2:
            # file keys longer than the small-string buffer
            ren = {n: "/a/long/directory/name/for/the/project/%s.theo" % n for n in files}
            files = {ren[n]: c for n, c in files.items()}
            for n in list(files):
                for old_, new_ in ren.items():
                    files[n] = files[n].replace('"%s"' % old_, '"%s"' % new_)
            main = ren[main]
        text = files[main]
        step = max(1, len(text) // (250 if any("DEFINE" in v for v in files.values()) else 700))
        for i in range(0, len(text) + 1, step):
            f2 = dict(files)
            f2[main] = text[:i]
            out.append((f2, main))
    elif k == "soup":
        V = mutate.FULL_VOCAB + ["\n", "// c\n", "ELSE", "<PROGRAM>", "<Value>", "<Args>", "End Define", "$0$1", "#0#1", "x:=", "1;", "END END", ";;", ",,",
                                 "12345678901234567890123456789012345678901"]
        for _ in range(spec["n"]):
            n = r.choice([1, 2, 3, 5, 8, 13, 30, 80])
            out.append(({"main": " ".join(r.choice(V) for _ in range(n))}, "main"))
    elif k == "shapes":
        progs = ["x := 1", "", " ", "\n\n", "// only a comment", "PROGRAM f DO x0 := 1 END", "x := 1 ;", "include", 'include "main"', 'include "a"',
                 'include "__standards__"', 'include "a" include "a"', "DEFINE", "DEFINE x", "DEFINE x AS", "DEFINE AS END DEFINE", "END DEFINE",
                 "DEFINE PRIO", "DEFINE PRIO 1", "DEFINE PRIO x y AS z END DEFINE", "DEFINE a AS $0 END DEFINE a", "DEFINE <V> AS $5 END DEFINE 1",
                 "DEFINE a DEFINE b AS c END DEFINE", "DEFINE a AS b AS c END DEFINE", "DEFINE a AS DEFINE END DEFINE", "DEFINE DEFINE AS $0", "DEFINE DEFINE AS $0 END DEFINE x := 1", "DEFINE PRIO 3 DEFINE DEFINE AS #0 := $1 END DEFINE", "DEFINE DEFINE AS x END DEFINE y := 1",
                 "DEFINE a DEFINE AS $0 END DEFINE a", "DEFINE DEFINE DEFINE", "DEFINE PRIO DEFINE AS $0", "DEFINE a AS $0 DEFINE b AS $1", "DEFINE <V> DEFINE AS $0 $1 $2 END DEFINE 1", "x := RUN f WITH 1, END",
                 "x := RUN f WITH END", "PROGRAM f DO x0 := 5 END x := RUN f WITH END", "PROGRAM f IN a, a OUT a DO a := a END x := RUN f WITH 1, 2 END",
                 "PROGRAM", "PROGRAM f", "PROGRAM f IN", "PROGRAM f IN a OUT", "PROGRAM f DO", "PROGRAM f DO END", "LOOP", "LOOP x DO END", "WHILE x != 0 DO",
                 "IF x = 1 THEN GOTO", "GOTO", "x :", "x : :", ": x", "x := ", "x := 99999999999999999999999", "x := y - 99999999999999999999999", "<P>", "$7", "#0",
                 "x := #0", "x := $0", "DEFINE PRIO 99999999999 a AS b END DEFINE a", "DEFINE a AS $99999999999 END DEFINE a", "DEFINE f <ID> AS $4294967296 := 1 END DEFINE f x", "DEFINE f <ID> <INT> AS $4294967297 END DEFINE x := f y 3",
                 "DEFINE PRIO 4294967296 f <V> AS $0 END DEFINE x := f 1", "DEFINE f <V> AS $8589934592 END DEFINE x := f 1", "STOP STOP", "x := 1 x := 2",
                 "x0 := RUN __INC__ WITH x1 END", "x0 := RUN __DEC__ WITH END", "x := RUN __INC__ WITH 1 END", "x := RUN f WITH RUN __DEC__ WITH y END END",
                 "x := RUN __INC__ WITH a, 1, 2 END", "x := RUN __INC__ WITH a, b END", "x := RUN __DEC__ WITH 1, 2 END", "x := RUN __INC__ WITH RUN __INC__ WITH a, 1 END, 2 END",
                 "PROGRAM __INC__ IN a DO x0 := a END x := RUN __INC__ WITH 1 END", "__INC__ := 1 ; __DEC__ : GOTO __DEC__", "LOOP __INC__ DO x := x + 1 END",
                 "x := 1 PROGRAM f DO STOP END", "\x00", "x := 1\x00; y := 2", "\xff\xfe", "x := \"a\"", "\"", "\"unterminated"]
        names = ["main", "a", "b", "__standards__", "-", "", "none", "#root", "a_file_name_longer_than_fifteen_characters.theo",
                 "/home/user/projects/theo/another quite long path/with spaces/main.theo"]
        for _ in range(500):
            nf = r.randint(0, 4)
            files = {}
            for _ in range(nf):
                files[r.choice(names)] = r.choice(progs)
            main = r.choice(names + ["absent"])
            out.append((files, main))
        long_ = "a_file_name_longer_than_fifteen_characters.theo"
        for p in progs:
            out.append(({long_: p}, long_))
            out.append(({"main": 'x := 1 ;\ninclude "%s"\ny := 2' % long_, long_: p}, "main"))
            out.append(({"main": p}, "main"))
            out.append(({"main": 'include "a"\n' + p, "a": p}, "main"))
            out.append(({"__standards__": p}, "__standards__"))
            out.append(({"main": "x := y + 1", "__standards__": p}, "main"))
            out.append(({"main": "// only a comment", "__standards__": p}, "main"))   # all program text comes from a user file of that name
            out.append(({"main": "", "__standards__": p + " ;\nx := RUN nosuch WITH END"}, "main"))
        if spec["chunk"] == 0:
            # errors on lines whose number needs more than 15, 16, 23, 24 bits
            for t in layouts.FAR_THRESHOLDS:
                pad, _ = layouts.far_pad(r, t)
                bad = r.choice(["x := ", "x := RUN nosuch WITH 1 END", "GOTO nowhere", "DEFINE a AS $3 END DEFINE a", 'include "absent"', "include"])
                out.append(({"main": "y := 1 ;\n" + pad + bad}, "main"))
                out.append(({"main": 'y := 1 ;\ninclude "far"', "far": pad + bad}, "main"))
    elif k == "noise":
        files, main = base_source(r, spec["chunk"])
        for _ in range(spec["n"]):
            f2 = dict(files)
            v = r.choice(list(files))
            f2[v] = mutate.byte_noise(files[v], r, r.randint(1, 8))
            out.append((f2, main))
    elif k == "diverge":
        srcs = ["DEFINE ping AS ping END DEFINE\nping", "DEFINE grow AS x := 1 ; grow END DEFINE\ngrow",
                "DEFINE aa AS bb END DEFINE\nDEFINE bb AS aa END DEFINE\nx := 1 ; aa",
                "DEFINE PRIO 2 <ID> ! AS $0 ! ! END DEFINE\nx !", "DEFINE <ID> ? <ID> AS $1 ? $0 END DEFINE\na ? b"]
        # the budget runs out right after a substitution that produced no token (macros with an empty body)
        empt = ["DEFINE SKIP AS END DEFINE\nx := 1 " + "SKIP " * r.randint(1025, 1200),
                 "DEFINE SKIP ; AS END DEFINE\n" + "SKIP ; " * r.randint(1025, 1100) + "x := 1",
                 "DEFINE PRIO 9 SKIP AS END DEFINE\nDEFINE ping AS SKIP ping END DEFINE\nx := 1 ping",
                 "DEFINE PRIO 9 SKIP AS END DEFINE\nDEFINE ping AS ping SKIP END DEFINE\nping"]
        for s in r.sample(srcs, 3) + r.sample(empt[:2], 1) + r.sample(empt[2:], 1):
            out.append(({"main": s}, "main"))
        # the KF1 witnesses (abandoned through the hook)
        if spec["chunk"] == 0:
            out.append(({"main": "DEFINE dup <P> fin AS dup $0 ; $0 fin END DEFINE\ndup x := 1 fin"}, "main"))
    elif k == "valgrind":
        for i in range(spec["n"]):
            files, main = base_source(r, i)
            if i % 3:
                v = r.choice(list(files))
                toks = mutate.text_tokens(files[v])
                files = dict(files)
                files[v] = " ".join(mutate.random_edits(toks, r, r.randint(1, 3), mutate.FULL_VOCAB))
            out.append((files, main))
    return out


def shape_problems(files, main, o):
    P = []
    if o["ok"] and o["errors"]:
        P.append(("both", "marked correct AND carries %d errors" % len(o["errors"])))
    if not o["ok"] and not o["errors"]:
        P.append(("neither", "marked incorrect but the error list is empty"))
    view = includes.compile_view(files, main)
    for t, msg, f, l in o["errors"]:
        if not msg:
            P.append(("empty-message", "error with empty message at %s:%d" % (f, l)))
        if f == "-":
            continue
        if f not in view:
            P.append(("unknown-file", "error located in %r which is neither supplied nor __standards__ nor '-': %s" % (f, msg[:80])))
            continue
        nlines = view[f].count("\n") + 1
        if not (1 <= l <= nlines):
            P.append(("line-out-of-file", "error at %s:%d but the file has %d lines: %s" % (f, l, nlines, msg[:80])))
    return P


def work(spec):
    part = harness.new_partial()
    ins = gen_cases(spec)
    if spec["kind"] == "valgrind":
        return work_valgrind(spec, ins, part)
    cases = []
    for f, m in ins:
        c = {"mode": "compile", "main": m, "files": f, "opts": [("program", 0), ("heap", 1), ("abandon", spec["abandon"])]}
        c["macro_heavy"] = any("DEFINE" in v or "define" in v.lower() for v in f.values())
        cases.append(c)
    outs, notes = common.run_batch(cases, detect_leaks=True, case_cpu=600)
    for n_ in notes:
        if n_.get("at_exit") and n_["kind"].startswith("lsan"):
            part["violations"].append({"signature": "leak-at-exit", "message": "LeakSanitizer at process exit:\n" + n_["stderr"][-1500:],
                                       "case": {"mode": "compile", "note": "batch-level, see per-case heap deltas"}})
    for (files, main), case, o in zip(ins, cases, outs):
        part["evals"] += 1
        if common.abnormal(ID, case, o, part, "while compiling"):
            continue
        P = shape_problems(files, main, o)
        if P:
            part["violations"].append({"signature": "shape:" + P[0][0], "message": "; ".join(p[1] for p in P[:3]), "case": common.slim_case(case)})
            continue
        if "heap" in o and o["heap"] != 0:
            part["violations"].append({"signature": "leak", "message": "compile() left %d bytes allocated (LSan: %s)" % (o["heap"], o.get("lsan")),
                                       "case": common.slim_case(case)})
            continue
        if "heap" in o:
            part["stats"]["heap-delta-zero"] += 1
        part["stats"]["kind:" + spec["kind"]] += 1
        part["stats"]["accepted" if o["ok"] else "rejected"] += 1
        for e in o["errors"][:3]:
            part["stats"]["errtype-%d" % e[0]] += 1
        part["stats"]["errors-inspected"] += len(o["errors"])
        if o["rewrites"] >= 1024:
            part["stats"]["budget-really-exhausted"] += 1
        ntok = sum(len(v.split()) for v in files.values())
        if ntok >= 3:
            part["nontrivial"].append(harness.chash([files, main]))
        if len(part["samples"]) < 1 and not o["ok"] and len(o["errors"]) >= 2 and spec["kind"] == "mut":
            part["samples"].append({"files": files, "main": main, "errors": o["errors"][:4]})
    return part


def work_valgrind(spec, ins, part):
    """memcheck on the plain build: uninitialised reads are invisible to ASan"""
    from .. import runner
    binary = common.drv("plain")
    d = os.path.join(runner.RUNDIR, "vg%d_%d" % (os.getpid(), spec["chunk"]))
    os.makedirs(d, exist_ok=True)
    cases = [{"mode": "compile", "main": m, "files": f, "opts": [("program", 0), ("abandon", spec.get("vg_abandon", 60))]} for f, m in ins]
    cf = os.path.join(d, "cases")
    runner.write_cases(cf, cases)
    log = os.path.join(d, "vg.log")
    # the driver leaves with exit 98 after a case whose macro expansion is still rewriting after the abandon threshold (reached
    # much sooner under valgrind's slow-down); it is restarted behind that case, like runner.run_cases does
    skip = 0
    results = [None] * len(cases)
    txt = ""
    while True:
        of = os.path.join(d, "out%d" % skip)
        with open(of, "wb") as o:
            p = subprocess.run(["valgrind", "--tool=memcheck", "--error-exitcode=77", "--track-origins=no", "--leak-check=no", "--log-file=" + log,
                                binary, cf, str(skip)], stdout=o, stderr=subprocess.PIPE)
        txt += open(log).read() if os.path.exists(log) else ""
        finished, cur, _t = runner._parse_out(of, skip, results)
        if finished or not isinstance(cur, tuple):
            break
        part["stats"]["valgrind-cases-abandoned-while-rewriting"] += 1
        skip = cur[1] + 1
        if skip >= len(cases):
            p = subprocess.CompletedProcess([], 0, b"", b"")
            break
    part["evals"] += len(cases)
    if p.returncode == 77 or "Invalid read" in txt or "Invalid write" in txt or "uninitialised" in txt:
        part["violations"].append({"signature": "memcheck:" + ("uninitialised" if "uninitialised" in txt else "invalid-access"),
                                   "message": "valgrind memcheck report:\n" + txt[-3000:], "case": {"mode": "compile", "files": ins[0][0], "main": ins[0][1],
                                                                                                    "opts": [], "note": "first case of the batch; see log"}})
    elif p.returncode != 0:
        part["inconclusive"].append("valgrind run failed with exit %d: %s" % (p.returncode, p.stderr.decode("latin-1")[-500:]))
    else:
        part["stats"]["valgrind-cases-clean"] += sum(1 for x in results if x is not None and not x.get("abandoned"))
        for f, m in ins:
            part["nontrivial"].append(harness.chash([f, m]))
    import shutil
    shutil.rmtree(d, ignore_errors=True)
    return part


def kf2_probe():
    """replay the KF2 witness (200,000 statements) on the plain build with the default 8 MiB stack"""
    from .. import runner
    binary = common.drv("plain")
    d = os.path.join(runner.RUNDIR, "kf2_%d" % os.getpid())
    os.makedirs(d, exist_ok=True)
    src = " ;\n".join("x := 1" for _ in range(200000))
    cf = os.path.join(d, "cases")
    runner.write_cases(cf, [{"mode": "compile", "main": "main", "files": {"main": src}, "opts": [("program", 0)]}])

    def lim():
        resource.setrlimit(resource.RLIMIT_STACK, (8 << 20, 8 << 20))
    try:
        p = subprocess.run([binary, cf], stdout=subprocess.PIPE, stderr=subprocess.PIPE, preexec_fn=lim, timeout=600)
        rc = p.returncode
    except subprocess.TimeoutExpired:
        rc = None
    import shutil
    shutil.rmtree(d, ignore_errors=True)
    return rc


def finish(merged, tier, seed):
    rc = kf2_probe()
    merged["stats"]["kf2-probe-exit"] = rc if rc is not None else -1
    if rc is not None and rc < 0:
        merged["violations"].append({"signature": "kf2:stack-overflow-on-200k-statement-source",
                                     "message": "200,000-statement source: driver died with signal %d (stack exhaustion through per-token recursion)" % (-rc),
                                     "case": {"mode": "compile", "main": "main", "files": {"main": "x := 1 ;\\n ... (200000 statements)"}, "opts": []}})
    return None


def replay(case):
    part = harness.new_partial()
    c = {"mode": "compile", "main": case["main"], "files": case["files"], "opts": [("program", 0), ("heap", 1), ("abandon", 20)]}
    c["macro_heavy"] = True
    outs, _ = common.run_batch([c], detect_leaks=True)
    o = outs[0]
    if common.abnormal(ID, c, o, part):
        return part["violations"]
    for sig, msg in shape_problems(case["files"], case["main"], o):
        part["violations"].append({"signature": "shape:" + sig, "message": msg, "case": case})
    if o.get("heap"):
        part["violations"].append({"signature": "leak", "message": "heap delta %d" % o["heap"], "case": case})
    return part["violations"]
