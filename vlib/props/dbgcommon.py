"""Shared workload + checkers for the debugger properties C05, C06, C17 (same logs, different checkers)."""
import itertools

from .. import harness
from ..gen import layouts, programs
from ..ref import dbgmodel, pipeline
from . import common

SMALL = [
    ("loop+call", {"main": "PROGRAM f IN a DO\nx0 := a + 1\nEND\nn := 2 ;\nLOOP n DO\nx := RUN f WITH x END\nEND"}),
    ("multi-site-line", {"main": 'x := 1 ; include "q" y := x ;\nz := y', "q": "\nLOOP x DO\nw := w + 2\nEND ;"}),
    ("callee-with-stop", {"main": "PROGRAM g IN a DO\nIF a = 2 THEN GOTO halt ;\nx0 := a ;\nGOTO fin ;\nhalt : STOP ;\nfin : x0 := x0 + 1\nEND\n"
                                  "x := RUN g WITH 1 END ;\ny := RUN g WITH 2 END ;\nz := 5"}),
]
SMALL.append(("saturating-arithmetic", {"main": "x := 2147483646 ;\ny := x + 5 ;\nz := y - 1 ;\nn := 2 ;\nLOOP n DO\nw := z + 3 ;\nz := w\nEND ;\nu := n - 9"}))
# which two locations the exhaustive alphabet toggles, per small program
SMALL_LOCS = [[("main", 2), ("main", 6)], [("main", 1), ("q", 3)], [("main", 5), ("main", 8)], [("main", 3), ("main", 6)]]
# thorough tier only: three more programs (WHILE + nested call, GOTO loop with label line, two files with equal line numbers)
SMALL += [
    ("while+nested-call", {"main": "PROGRAM g IN a DO\nx0 := a + 1\nEND\nPROGRAM f IN a DO\nx0 := RUN g WITH RUN g WITH a END END\nEND\nn := 2 ;\nWHILE n != 0 DO\n"
                                   "x := RUN f WITH x END ;\nn := n - 1\nEND"}),
    ("goto-loop", {"main": "n := 3 ;\ntop : IF n = 0 THEN GOTO fin ;\nn := n - 1 ;\nx := x + 2 ;\nGOTO top ;\nfin : y := x"}),
    ("equal-line-numbers", {"main": 'include "lib"\nx := RUN h WITH 2 END ;\ny := x', "lib": "PROGRAM h IN a DO\nx0 := a + 3\nEND"}),
]
SMALL_LOCS += [[("main", 5), ("main", 9)], [("main", 2), ("main", 4)], [("lib", 2), ("main", 2)]]


def plan(tier, seed, pid):
    specs = []
    L_ = 5 if tier == "quick" else 6
    for pi in range(4 if tier == "quick" else len(SMALL)):
        # split the exhaustive set by first two ops to spread it over the workers
        for a in range(8):
            for b in range(8):
                specs.append({"kind": "exh", "prog": pi, "first": a, "second": b, "len": L_, "seed": seed, "pid": pid})
    n = 300 if tier == "quick" else 5000
    for i in range(n // 25):
        specs.append({"kind": "rand", "chunk": i, "n": 25, "seed": seed, "pid": pid, "hlen": 200, "nh": 4})
    return specs


def alphabet(locs):
    return ["e", "s", "T", "c", "r", dbgmodel.bp(locs[0]), dbgmodel.bp(locs[0], False), dbgmodel.bp(locs[1])]


def rand_history(r, avail, n):
    ops = []
    unavailable = [("main", 99999), ("nosuchfile", 1), ("__standards__", 1), ("none", -1)]
    for _ in range(n):
        q = r.random()
        if q < 0.22:
            ops.append("e")
        elif q < 0.5:
            ops.append("s")
        elif q < 0.58:
            ops.append(r.choice("Tt"))
        elif q < 0.8 and avail:
            ops.append(dbgmodel.bp(r.choice(avail), r.random() < 0.67))
        elif q < 0.84:
            ops.append(dbgmodel.bp(r.choice(unavailable), r.random() < 0.5))
        elif q < 0.88:
            ops.append("c")
        elif q < 0.92:
            ops.append("r")
        else:
            ops.append("i")
    return ops


def build_cases(spec):
    """-> list of (name, files, main, histories)"""
    out = []
    if spec["kind"] == "exh":
        name, files = SMALL[spec["prog"]]
        A = alphabet(SMALL_LOCS[spec["prog"]])
        hs = []
        for rest in itertools.product(A, repeat=spec["len"] - 2):
            hs.append([A[spec["first"]], A[spec["second"]]] + list(rest))
        out.append((name, files, "main", hs))
    else:
        r = common.rng(spec["seed"], "dbg", spec["chunk"])
        for _ in range(spec["n"]):
            o = programs.Opts(max_defs=3, boundary=(r.random() < 0.25))   # some programs saturate their arithmetic
            p = programs.Gen(r, o).program()
            lines = programs.to_lines(p, programs.Speller(r))
            q = r.random()
            if q < 0.3:
                files, main = layouts.split_tokens([t for l in lines for t in l], r, max_files=3)
            elif q < 0.55:
                files, main = layouts.split_lines(lines, r, max_files=3)      # long main file, short included files with any name order
            else:
                files, main = {"main": layouts.canonical(lines)}, "main"
            out.append(("generated", files, main, None))
        if spec["chunk"] < 4:
            # root scripts that own no variable (their frame has zero words)
            for files, main, kind in programs.no_variable_sources(r):
                out.append(("generated", files, main, None))
        if spec["chunk"] < 2:
            # a line with 300 breakpoint sites, 260 labelled lines, a call chain 130 deep, 260 included files
            for files, main, kind in programs.scale_sources(r, small=True):
                if any(w in kind for w in ("one-line", "labels", "call-chain", "included-files", "loop-nesting")):
                    out.append(("generated", files, main, None))
    return out


def run(spec):
    """-> list of (name, files, main, histories, driver output)"""
    progs = build_cases(spec)
    res = []
    if spec["kind"] == "exh":
        cases = []
        for name, files, main, hs in progs:
            cases.append({"mode": "dbg", "main": main, "files": files,
                          "opts": [("budget", 3000)] + [("hist", " ".join(h)) for h in hs]})
        outs, _ = common.run_batch(cases, case_cpu=60)
        for (name, files, main, hs), c, o in zip(progs, cases, outs):
            res.append((name, files, main, hs, c, o))
        return res
    # random: first learn the available locations (cheap compile), then build histories
    r = common.rng(spec["seed"], "dbgh", spec["chunk"])
    pre = [{"mode": "compile", "main": main, "files": files, "opts": [("program", 1)]} for _, files, main, _ in progs]
    pouts, _ = common.run_batch(pre)
    cases = []
    keep = []
    for (name, files, main, _), po in zip(progs, pouts):
        if "crash" in po or "timeout" in po or not po.get("ok"):
            continue
        avail = sorted(set((f, l) for f, l, _ in po["pb"]) | set((f, l) for _, f, l in po["li"]))
        hs = [rand_history(r, avail, r.randint(20, spec["hlen"])) for _ in range(spec["nh"])]
        cases.append({"mode": "dbg", "main": main, "files": files,
                      "opts": [("budget", 4000), ("disasm", len(cases) % 2)] + [("hist", " ".join(h)) for h in hs]})
        keep.append((name, files, main, hs))
    outs, _ = common.run_batch(cases, case_cpu=60)
    for (name, files, main, hs), c, o in zip(keep, cases, outs):
        res.append((name, files, main, hs, c, o))
    return res


def walk(pid, name, files, main, hs, case, out, part, checker):
    """replay every history through the model and call checker(model, op, expectation, observation, prev_obs)"""
    if common.abnormal(pid, case, out, part):
        return
    if not out["ok"]:
        part["stats"]["rejected"] += 1
        if name != "generated" and name != "replay":
            part["inconclusive"].append("the fixed small program '%s' is rejected by the compiler: %s" % (name, out["errors"][:2]))
        return
    model = dbgmodel.Model(out)
    fresh = out["fresh"]
    if pid in ("C06", "C17") and (fresh[1] != 0 or fresh[3:5] != ["none", -1] or fresh[5] != 0 or fresh[6] != [] or fresh[9] != 0 or fresh[10] != []):
        part["violations"].append({"signature": "fresh-machine-state", "message": "a newly constructed VM reports ip=%s location=%s:%s stepping=%s enabled=%s activations=%s BREAK opcodes=%s"
                                   % (fresh[1], fresh[3], fresh[4], fresh[5], fresh[6], fresh[9], fresh[10]),
                                   "case": {"mode": "dbg", "main": main, "files": files, "opts": [["budget", 4000]]}})
        return
    part["stats"]["programs"] += 1
    part["stats"]["path-length-total"] += len(out["path"])
    for h, obs in zip(hs, out["hist"]):
        part["evals"] += 1
        model.reset()
        model.resets = 0
        prev = out["fresh"]
        nontrivial_en = nontrivial_stop = False
        ok = True
        for op, ob in zip(h, obs):
            if ob == "T":
                part["stats"]["histories-truncated-at-budget"] += 1
                break
            at_halt_before = model.is_halt(model.path[model.k][0])
            before = (model.k, set(model.en), model.stepping)
            res = model.apply(op)
            if res["beyond"]:
                part["stats"]["histories-left-recorded-path"] += 1
                break
            part["stats"]["api-calls-checked"] += 1
            if res["site"]:
                part["stats"]["stops-at-sites"] += 1
                nontrivial_stop = True
            if op[0] == "b" and res["ret"] == 1:
                nontrivial_en = True
            if op[0] == "r":
                part["stats"]["resets"] += 1
            problem = checker(model, op, res, ob, prev, at_halt_before, out)
            if problem:
                sig, msg = problem
                part["violations"].append({"signature": sig, "message": "%s after op '%s' in history %s (program: %s)" % (
                    msg, op, " ".join(h[:40]), name), "case": {"mode": "dbg", "main": main, "files": files, "opts": [["budget", 4000], ["hist", " ".join(h)]]}})
                ok = False
                break
            prev = ob
        if ok and nontrivial_en and nontrivial_stop:
            part["nontrivial"].append(harness.chash([files, h]))
        if ok and len(part["samples"]) < 1 and nontrivial_stop and nontrivial_en and name != "generated":
            part["samples"].append({"program": files, "history": h, "observations(ret,ip,done,file,line,stepping,enabled,...)": [o[:7] for o in obs[:8]]})


def work(spec, pid, checker):
    part = harness.new_partial()
    for name, files, main, hs, case, out in run(spec):
        walk(pid, name, files, main, hs, case, out, part, checker)
    return part


def replay(case, pid, checker):
    part = harness.new_partial()
    hs = [v.split(" ") for k, v in case["opts"] if k == "hist"]
    c = {"mode": "dbg", "main": case["main"], "files": case["files"], "opts": [tuple(o) for o in case["opts"]]}
    outs, _ = common.run_batch([c])
    walk(pid, "replay", case["files"], case["main"], hs, c, outs[0], part, checker)
    return part["violations"]
