"""C10 - macro temporaries are hygienic."""
from .. import harness
from ..ref import pipeline
from . import c01, common, macrocommon

ID = "C10"
LEVEL = "exploration"
TECHNIQUE = "reference-model monitor: provenance-tagged temporaries in R3's replay of every rewrite (bijection between (expansion step, n) and the engine's identifier texts, R1 as the 'can a user write this' test) + end-to-end comparison of VM results with the reference interpreter under hygienic expansion, under ASan+UBSan"
FLAVOURS = [("asan", "generated")]
RULE = ("sources using macros with temporaries (SWAP, ROT, ROT4, REPEAT, IFZ, with #0..#2 and #1/#10/#11/#100 side by side) inside their own slot arguments, twice in one statement sequence, "
        "mutually nested, with the definitions spread over several files on equal line numbers or packed on one line; (1) every rewrite is replayed: "
        "two occurrences with the same (step, n) must get the same identifier, different (step, n) different identifiers, and no generated identifier "
        "may tokenise as a user-writable identifier; (2) the program is compiled and run and its final variables compared with the reference "
        "interpreter on the hygienically expanded source; non-trivial = >= 2 rewrites that introduce temporaries; distinct by SHA-1 of the files")
ASSUMPTIONS = ["R3 tags every temporary with (rewrite step, n); R5 treats the tags as distinct variables",
               "not judged: a macro body whose #n tokens come from different files (split by an include inside the definition)"]

DEFS = [
    "DEFINE SWAP <ID> <ID> AS #0 := $0 ; $0 := $1 ; $1 := #0 END DEFINE",
    "DEFINE REPEAT <V> TIMES <P> DONE AS #0 := $0 ; LOOP #0 DO $1 END END DEFINE",
    "DEFINE IFZ <V> THEN <P> ELSE <P> FI AS #0 := 0 ; #1 := 1 ; #2 := $0 ; LOOP #2 DO #0 := 1 ; #1 := 0 END ; LOOP #1 DO $1 END ; LOOP #0 DO $2 END END DEFINE",
    "DEFINE ROT <ID> <ID> <ID> AS #0 := $0 ; $0 := $1 ; $1 := $2 ; $2 := #0 END DEFINE",
    "DEFINE TWICE <P> ECIWT AS #1 := 2 ; LOOP #1 DO $0 END END DEFINE",
    # two-digit temporaries beside their one-digit prefixes: #1, #10, #11, #100 are four different variables
    # temporary numbers that agree modulo 2^32, and numbers beyond 2^63: all different temporaries
    "DEFINE ROT5 <ID> <ID> <ID> <ID> <ID> AS #0 := $0 ; #4294967296 := $1 ; #4294967297 := $2 ; #9223372036854775808 := $3 ; #9223372036854775809 := $4 ; "
    "$0 := #9223372036854775809 ; $1 := #0 ; $2 := #4294967296 ; $3 := #4294967297 ; $4 := #9223372036854775808 END DEFINE",
    # an expansion that is SHORTER than the use (a whole statement slot is dropped), used inside its own slot
    "DEFINE KEEP <ID> OVER <P> INSTEADOF <P> PEEK AS #0 := $0 ; $1 ; $0 := #0 END DEFINE",
    "DEFINE ROT4 <ID> <ID> <ID> <ID> AS #10 := $0 ; #1 := $1 ; #11 := $2 ; #100 := $3 ; $0 := #100 ; $1 := #10 ; $2 := #1 ; $3 := #11 END DEFINE",
]
VARS = ["x", "y", "z", "u"]


def stmt(r, depth):
    q = r.random()
    a, b, c = r.sample(VARS, 3)
    if depth < 3 and q > 0.97:
        return ["KEEP", a, "OVER", "KEEP", b, "OVER", a, ":=", "7", ";", b, ":=", "8", "INSTEADOF", c, ":=", "1", ";", c, ":=", "2", "PEEK",
                "INSTEADOF", c, ":=", "3", ";", c, ":=", "4", ";", c, ":=", "5", "PEEK"]
    if depth >= 3 or q < 0.25:
        return r.choice([[a, ":=", b, "+", str(r.randint(0, 3))], [a, ":=", str(r.randint(0, 4))], ["SWAP", a, b], ["ROT", a, b, c]])
    if q < 0.45:
        return ["REPEAT", r.choice([a, "2", "3"]), "TIMES"] + seq(r, depth + 1) + ["DONE"]
    if q < 0.65:
        return ["IFZ", r.choice([a, "0", "1"]), "THEN"] + seq(r, depth + 1) + ["ELSE"] + seq(r, depth + 1) + ["FI"]
    if q < 0.8:
        return ["TWICE"] + seq(r, depth + 1) + ["ECIWT"]
    if q < 0.84:
        return ["SWAP", a, b]
    if q < 0.87:
        return ["KEEP", a, "OVER"] + seq(r, depth + 1) + ["INSTEADOF"] + seq(r, 3) + [";"] + seq(r, 3) + ["PEEK"]
    if q < 0.94:
        return ["ROT4", a, b, c, [v for v in VARS if v not in (a, b, c)][0]]
    if q < 0.97:
        return ["ROT5", a, b, c, [v for v in VARS if v not in (a, b, c)][0], "v5"]
    return ["ROT", a, b, c]


def seq(r, depth):
    out = []
    n = r.randint(1, 3)
    for i in range(n):
        if i:
            out.append(";")
        out += stmt(r, depth)
    return out


def source(r):
    body = []
    for v in VARS:
        body += [v, ":=", str(r.randint(0, 4)), ";"]
    n = r.randint(2, 4)
    for i in range(n):
        if i:
            body.append(";")
        body += stmt(r, 0)
    text = " ".join(body)
    mode = r.randrange(3)
    # file keys are arbitrary strings: short ones and long path-like ones (the key is part of a temporary's name)
    style = r.choice(["%s", "%s", "lib/%s.theo", "/home/student/theoretische-informatik/uebung-07/aufgabe-2/%s.theo",
                      "C:/Users/A Very Long User Name/Documents/Theo IDE Projects/semester 3/sheet 11/%s.theo"])
    main = style % "main"
    if mode == 0:
        # every definition in its own file, all on line 1 (equal line numbers, equal #n)
        files = {main: "\n".join('include "%s"' % (style % ("h%d" % i)) for i in range(len(DEFS))) + "\n" + text}
        for i, d in enumerate(DEFS):
            files[style % ("h%d" % i)] = d
    elif mode == 1:
        files = {main: " ".join(DEFS) + " " + text}   # all definitions on one line
    else:
        ds = list(DEFS)
        r.shuffle(ds)
        files = {main: 'include "%s"\n' % (style % "lib") + text, style % "lib": "\n".join(ds)}
    return files, main


def plan(tier, seed):
    n = 1200 if tier == "quick" else 10000
    specs = [{"seed": seed, "chunk": i, "n": 40} for i in range(n // 40)]
    # sources that need slightly more than the compiler's 1024 rewrites: normally rejected for the budget (then not
    # judged); if a tree compiles them, the result must still be the hygienic one
    specs += [{"seed": seed, "chunk": i, "kind": "overflow"} for i in range(6 if tier == "quick" else 48)]
    return specs


def overflow_source(r):
    """K inner uses of a save/restore macro (rewrites 0..K-1), ~1020 filler rewrites, then the enclosing use"""
    K = 6
    fill = r.randint(1014, 1026)
    a = "a"
    inner = " ; ".join("KEEP v%d OVER v%d := %d END" % (i, i, 50 + i) for i in range(K))
    body = "%s ; %s := %d %s" % (inner, a, r.randint(100, 200), " SKIP" * fill)
    init = " ".join("v%d := %d ;" % (i, i + 1) for i in range(K))
    text = ("DEFINE KEEP <ID> OVER <P> END AS #0 := $0 ; $1 ; $0 := #0 END DEFINE\nDEFINE SKIP AS END DEFINE\n"
            "%s := 5 ; %s\nKEEP %s OVER %s END" % (a, init, a, body))
    return {"main": text}, "main"


def work_overflow(spec, part):
    r = common.rng(spec["seed"], "C10overflow", spec["chunk"])
    files, main = overflow_source(r)
    part["evals"] += 1
    case = {"mode": "run", "main": main, "files": files, "opts": [("budget", 100000), ("program", 0), ("abandon", 60)]}
    outs, _ = common.run_batch([case])
    o = outs[0]
    if common.abnormal(ID, case, o, part, "on a source needing more than 1024 rewrites"):
        return
    if not o["ok"]:
        part["stats"]["overflow:rejected-for-budget" if any("too many macro substitutions" in e[1] for e in o["errors"]) else "overflow:rejected-otherwise"] += 1
        return
    f = pipeline.front(files, main, budget=20000)
    if not f.verdict:
        part["stats"]["overflow:reference-rejects"] += 1
        return
    st, interp = pipeline.run(f, 100000)
    exp = interp.final()
    bad = []
    for (rn, rv), (_, ov) in zip(exp, o["acts"]):
        for k, v in rv.items():
            if not k.startswith("\x00") and ov.get(k) != v:
                bad.append("%s = %s, hygienic expansion gives %d" % (k, ov.get(k), v))
    if bad:
        part["violations"].append({"signature": "end-to-end:values-differ-beyond-budget", "message":
                                   "source needing %d rewrites was compiled; %s" % (f.nrewrites, "; ".join(bad[:4])), "case": common.slim_case(case)})
        return
    part["stats"]["overflow:compiled-and-agrees"] += 1


def work(spec):
    part = harness.new_partial()
    if spec.get("kind") == "overflow":
        work_overflow(spec, part)
        return part
    r = common.rng(spec["seed"], "C10", spec["chunk"])
    srcs = [source(r) for _ in range(spec["n"])]
    budget = 300
    mcases = [{"mode": "macro", "main": m, "files": f, "opts": [("passes", budget), ("streams", 1), ("maxevents", 300)]} for f, m in srcs]
    mouts, _ = common.run_batch(mcases)
    items = [c01.build_item(f, m, 60000, "hygiene") for f, m in srcs]
    live = [it for it in items if "skip" not in it]
    routs, _ = common.run_batch([it["case"] for it in live])
    sub = harness.new_partial()
    c01.judge(live, routs, sub)
    for v in sub["violations"]:
        v["signature"] = "end-to-end:" + v["signature"]
        part["violations"].append(v)
    part["stats"]["end-to-end-agree"] += sub["stats"]["agree-terminated"]
    part["stats"]["end-to-end-vm-instructions"] += sub["stats"]["vm-instructions"]
    part["inconclusive"] += sub["inconclusive"]
    for (files, main), case, o in zip(srcs, mcases, mouts):
        part["evals"] += 1
        if common.abnormal(ID, case, o, part, "while expanding macros"):
            continue
        rp = macrocommon.replay(files, main, o, budget, max_steps=300)
        if rp.nj:
            part["stats"]["nj:" + rp.nj.split(":")[0]] += 1
            continue
        if rp.problems:
            sig, msg = rp.problems[0]
            part["violations"].append({"signature": sig, "message": msg, "case": common.slim_case(case)})
            continue
        part["stats"]["rewrites-replayed"] += rp.steps
        part["stats"]["rewrites-introducing-temporaries"] += rp.temps
        part["stats"]["distinct-temporaries-mapped"] += len(rp.tmap)
        if rp.temps >= 2:
            part["nontrivial"].append(harness.chash(files))
        if len(part["samples"]) < 1 and rp.temps >= 4:
            part["samples"].append({"files": files, "temporaries(reference step.n -> engine identifier)": {k[1:]: v for k, v in list(rp.tmap.items())[:8]}})
    return part


def replay(case):
    part = harness.new_partial()
    c = {"mode": "macro", "main": case["main"], "files": case["files"], "opts": [("passes", 300), ("streams", 1), ("maxevents", 300)]}
    outs, _ = common.run_batch([c])
    if common.abnormal(ID, c, outs[0], part):
        return part["violations"]
    rp = macrocommon.replay(case["files"], case["main"], outs[0], 300, max_steps=300)
    for sig, msg in rp.problems:
        part["violations"].append({"signature": sig, "message": msg, "case": case})
    it = c01.build_item(case["files"], case["main"], 60000, "hygiene")
    if "skip" not in it:
        routs, _ = common.run_batch([it["case"]])
        c01.judge([it], routs, part)
    return part["violations"]
