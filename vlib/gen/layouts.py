"""Layouts: canonical one-statement-per-line, random whitespace/comments, splitting over included files."""
from ..ref import lexer as L

SEPS = [" ", " ", " ", "\n", "\n", "  ", "\t", " // c\n", "\n\n", " \n ", "//x := 1\n"]
PUNCT = set("();,:=")


def canonical(lines):
    return "\n".join(" ".join(l) for l in lines)


def _kinds_texts(text):
    return [(k, t) for k, t, _ in L.tokenize(text)]


def random_layout(tokens, rnd, tight=0.15):
    """arbitrary whitespace / newlines / comments between any two tokens; with probability `tight`
    no separator at all where the token boundary survives (checked by re-tokenising)."""
    want = []
    for t in tokens:
        want += _kinds_texts(t)
    out = []
    for i, t in enumerate(tokens):
        out.append(t)
        if i + 1 < len(tokens):
            sep = rnd.choice(SEPS)
            if rnd.random() < tight:
                a, b = t[-1], tokens[i + 1][0]
                if (a in PUNCT or b in PUNCT) and not (a == ":" and b == "=") and not (a == "/" and b == "/"):
                    sep = ""
            out.append(sep)
    text = "".join(out)
    if _kinds_texts(text) != want:
        text = " ".join(tokens)
    return text


# file names that sort before and after "main" (tables keyed by file name keep the main file first, in the middle or last)
NAME_STYLES = ["%s%d", "%s%d", "lib/%s_%d.theo", "a rather long directory/%s%d.theo", "z_%s%d", "zz last/%s_%d.theo", "Z%s%d", "n%s%d",
               "dir\\%s%d.theo", "C:\\Users\\%s\\%d\\", "gr\xf6\xdfe_%s%d.theo", "\xe9t\xe9/%s%d"]   # backslashes and 8-bit bytes in names
# names that differ from one another only in letter case, and the empty name
TWIN_NAMES = ["lib", "Lib", "LIB", "lIb", "liB"]


def file_name(rnd, prefix, k, twins):
    if twins == "case":
        return TWIN_NAMES[k % len(TWIN_NAMES)]
    if twins == "empty" and k == 0:
        return ""
    return rnd.choice(NAME_STYLES) % (prefix, k)


def name_mode(rnd):
    q = rnd.random()
    return "case" if q < 0.12 else ("empty" if q < 0.2 else None)


def split_lines(lines, rnd, max_files=3, prefix="inc", repeat=False):
    """canonical layout over several files: contiguous line blocks move into included files
    (nested includes possible).  -> (files dict, main name)"""
    items = [" ".join(l) for l in lines]
    files = {}
    twins = name_mode(rnd)
    nfiles = rnd.randint(1, max_files)
    for k in range(nfiles):
        if len(items) < 3:
            break
        i = rnd.randrange(0, len(items) - 1)
        j = rnd.randint(i + 1, min(len(items), i + rnd.choice([1, 2, 3, 6, 12])))
        name = file_name(rnd, prefix, k, twins)
        files[name] = "\n".join(items[i:j])
        items[i:j] = ['%s "%s"' % (rnd.choice(L.SPELL[L.INCLUDE]), name)]
    if repeat:
        # repeated inclusion: a run of >= 2 complete simple statements (assignment lines ending in ';') moves into
        # a file that is included two or three times in a row
        runs = []
        i = 0
        while i < len(items):
            j = i
            while j < len(items) and ":=" in items[j] and items[j].rstrip().endswith(";") and "include" not in items[j].lower() \
                    and not items[j].split()[0].endswith(":") and (len(items[j].split()) < 2 or items[j].split()[1] != ":"):
                j += 1
            if j - i >= 2:
                runs.append((i, j))
            i = max(j, i + 1)
        if runs:
            i, j = rnd.choice(runs)
            j = min(j, i + 4)
            files["rep"] = "\n".join(items[i:j])
            items[i:j] = ['include "rep"'] * rnd.randint(2, 3)
    files["main"] = "\n".join(items)
    return files, "main"


def split_tokens(tokens, rnd, max_files=3, prefix="f", layout=True):
    """token ranges move into included files, every file in a random layout"""
    items = list(tokens)
    files = {}
    twins = name_mode(rnd)
    nfiles = rnd.randint(0, max_files)
    for k in range(nfiles):
        if len(items) < 3:
            break
        i = rnd.randrange(0, len(items) - 1)
        j = rnd.randint(i + 1, min(len(items), i + rnd.choice([1, 1, 2, 5, 20])))
        name = file_name(rnd, prefix, k, twins)
        files[name] = items[i:j]
        items[i:j] = [("INC", name)]

    def ren(ts):
        flat = []
        for t in ts:
            if isinstance(t, tuple):
                flat.append(rnd.choice(L.SPELL[L.INCLUDE]))
                flat.append('"%s"' % t[1])
            else:
                flat.append(t)
        if layout:
            return random_layout(flat, rnd)
        return " ".join(flat)
    res = {"main": ren(items)}
    for n, ts in files.items():
        res[n] = ren(ts)
    return res, "main"


_RESPELL_KINDS = [L.RUN, L.WITH, L.DO, L.LOOP, L.WHILE, L.GOTO, L.IF, L.THEN, L.STOP, L.END, L.PROGRAM, L.IN, L.OUT, L.DEFINE, L.AS, L.PRIORITY]


def respell(text, rnd, p=0.5):
    """give every keyword occurrence (outside quoted names and comments) a random documented spelling"""
    import re
    table = {}
    for k in _RESPELL_KINDS:
        for w in L.SPELL[k]:
            table[w] = L.SPELL[k]
    rx = re.compile(r'"[^"]*"|//[^\n]*|END DEFINE|End Define|end define|\b(?:%s)\b' % "|".join(sorted(table, key=len, reverse=True)))

    def f(m):
        w = m.group(0)
        if w in table and rnd.random() < p:
            return rnd.choice(table[w])
        return w
    return rx.sub(f, text)


# ---------------------------------------------------------------- very long files
FAR_THRESHOLDS = [2 ** 15, 2 ** 16, 2 ** 23, 2 ** 24]


def far_pad(rnd, threshold=None, filler=None):
    """filler text of about <threshold> lines (blank / comment / blank-with-spaces lines) so that what follows stands on a
    line number that needs more than 15, 16, 23 or 24 bits; -> (text, number of newlines)"""
    t = threshold or rnd.choice(FAR_THRESHOLDS)
    n = t - rnd.randint(0, 3)
    f = filler if filler is not None else rnd.choice(["\n", "\n", "\n", " \n", "// c\n"])
    if t > 2 ** 23:
        f = "\n"
    return f * n, n


def far_program(rnd, lines, thresholds=None):
    """a one-statement-per-line program (list of token lists) laid out with a far pad before one of its lines, optionally
    with its tail moved into an included file that has a far pad of its own; -> (files, main)"""
    ths = thresholds or FAR_THRESHOLDS
    cut = rnd.randrange(0, len(lines))
    pad, _ = far_pad(rnd, rnd.choice(ths))
    head = "\n".join(" ".join(l) for l in lines[:cut])
    tail = "\n".join(" ".join(l) for l in lines[cut:])
    if rnd.random() < 0.5 or cut == 0:
        return {"main": head + ("\n" if head else "") + pad + tail}, "main"
    # the included file carries the pad: its lines count from 1 again, the includer's continue after the directive
    cut2 = rnd.randrange(cut, len(lines))
    mid = "\n".join(" ".join(l) for l in lines[cut:cut2])
    tail = "\n".join(" ".join(l) for l in lines[cut2:])
    pad2, _ = far_pad(rnd, rnd.choice(ths[:3]))
    return {"main": head + "\n" + pad2 + 'include "far"\n' + tail, "far": pad + mid}, "main"
