"""Token- and byte-level mutators (DESIGN 3.5)."""
from ..ref import lexer as L

LANG_VOCAB = (["RUN", "WITH", "DO", "LOOP", "WHILE", "GOTO", "IF", "THEN", "STOP", "END", "PROGRAM", "IN", "OUT",
               ",", ";", ":", ":=", "!= 0", "=", "(", ")", "+", "-"]
              + ["x", "y", "f0", "f1", "nosuchprog", "L1", "L2", "p0", "x0", "t"]
              + ["0", "1", "3", "2147483646", "2147483647", "2147483648", "100000000000000000000"])

MACRO_VOCAB = ["DEFINE", "AS", "END DEFINE", "ENDDEF", "PRIO", "PRIORITY", "<P>", "<V>", "<ID>", "<INT>", "<ARGS>", "$0", "$1",
               "$7", "$99999999999", "$4294967296", "$4294967297", "$8589934592", "#0", "#1", "#12", "include", "\"lib\"", "\"nofile\"", "*", "@", "!", "FOO", "ELSE", "FI",
               "IFZ", "REPEAT", "TIMES", "DONE", "SWAP", "NOP", "4294967296", "18446744073709551616", "__INC__", "__DEC__"]

FULL_VOCAB = LANG_VOCAB + MACRO_VOCAB


def random_edits(toks, r, k, vocab):
    t = list(toks)
    for _ in range(k):
        op = r.random()
        pos = r.randrange(len(t) + 1) if t else 0
        if op < 0.3 and pos < len(t):
            del t[pos]
        elif op < 0.6:
            t.insert(pos, r.choice(vocab))
        elif op < 0.9 and pos < len(t):
            t[pos] = r.choice(vocab)
        elif pos + 1 < len(t):
            t[pos], t[pos + 1] = t[pos + 1], t[pos]
    return t


def single_edits(toks, vocab, r=None, insert_sample=None):
    """all single-token deletions, adjacent swaps, and insertions/replacements (all of `vocab`, or a sample of
    `insert_sample` words per position when given)"""
    n = len(toks)
    for i in range(n):
        yield toks[:i] + toks[i + 1:]
    for i in range(n - 1):
        if toks[i] != toks[i + 1]:
            yield toks[:i] + [toks[i + 1], toks[i]] + toks[i + 2:]
    for i in range(n + 1):
        ws = vocab if insert_sample is None else r.sample(vocab, min(insert_sample, len(vocab)))
        for w in ws:
            yield toks[:i] + [w] + toks[i:]
    for i in range(n):
        ws = vocab if insert_sample is None else r.sample(vocab, min(insert_sample, len(vocab)))
        for w in ws:
            if w != toks[i]:
                yield toks[:i] + [w] + toks[i + 1:]


def truncations(text):
    for i in range(len(text) + 1):
        yield text[:i]


NOISE = ["\x00", "\x80", "\xff", "\r", "\f", "\v", "\"", "/", "<", ">", "$", "#", "!", "\x01", "\x7f", "\xc3", "\xa4", " ", "\n", "\t"]


def byte_noise(text, r, k):
    b = list(text)
    for _ in range(k):
        pos = r.randrange(len(b) + 1)
        ch = r.choice(NOISE)
        op = r.random()
        if op < 0.4 and pos < len(b):
            b[pos] = ch
        elif op < 0.8:
            b.insert(pos, ch)
        elif pos < len(b):
            del b[pos]
    return "".join(b)


def text_tokens(text):
    """token texts of a source (R1), e.g. to mutate an existing text at token level"""
    return [t for _, t, _ in L.tokenize(text)]
