"""Macro sets: a curated library plus randomly assembled deterministic patterns, and programs using them."""
from ..ref import lexer as L, patterns
from . import layouts, programs

HELPERS = """PROGRAM add IN a, b OUT a DO
LOOP b DO
a := a + 1
END
END
PROGRAM sub IN a, b OUT a DO
LOOP b DO
a := a - 1
END
END
PROGRAM mul IN a, b DO
LOOP a DO
x0 := RUN add WITH x0, b END
END
END
"""

LIB_MACROS = [
    "DEFINE PRIO 10 <V> + <V> AS RUN add WITH $0, $1 END END DEFINE",
    "DEFINE PRIO 10 <V> - <V> AS RUN sub WITH $0, $1 END END DEFINE",
    "DEFINE PRIO 20 <V> * <V> AS RUN mul WITH $0, $1 END END DEFINE",
    "DEFINE PRIO 30 <ID> ( <ARGS> ) AS RUN $0 WITH $1 END END DEFINE",
    "DEFINE PRIO 5 ( <V> ) AS $0 END DEFINE",
    "DEFINE NOP AS nop_ := 0 END DEFINE",
    "DEFINE IFZ <V> THEN <P> ELSE <P> FI AS\n#0 := 0;\n#1 := 1;\n#2 := $0;\nLOOP #2 DO\n#0 := 1;\n#1 := 0\nEND;\nLOOP #1 DO $1 END;\nLOOP #0 DO $2 END\nEND DEFINE",
    "DEFINE REPEAT <V> TIMES <P> DONE AS #0 := $0; LOOP #0 DO $1 END END DEFINE",
    "DEFINE SWAP <ID> <ID> AS #0 := $0; $0 := $1; $1 := #0 END DEFINE",
    "DEFINE <ID> ADDTO <ID> AS $1 := RUN add WITH $1, $0 END END DEFINE",
    "DEFINE PRIO 40 <ID> + = <INT> AS $0 := $0 + $1 END DEFINE",
    # a temporary that bounds two loops, and one that is assigned inside the loop it bounds
    "DEFINE TWICEOVER <V> DO <P> OD AS #0 := $0; LOOP #0 DO $1 END; LOOP #0 DO $1 END END DEFINE",
    "DEFINE DRAIN <V> DO <P> OD AS #0 := $0; LOOP #0 DO $1; #0 := 0 END END DEFINE",
]

VARS = ["x", "y", "z", "u", "w"]


def expr(r, vars_, depth=0):
    """token list of a macro-syntax value expression"""
    q = r.random()
    if depth >= 2 or q < 0.35:
        return [r.choice(vars_)] if r.random() < 0.6 else [str(r.choice([0, 1, 2, 3]))]
    if q < 0.75:
        op = r.choice(["+", "+", "-", "*"])
        a, b = expr(r, vars_, depth + 1), expr(r, vars_, depth + 1)
        toks = a + [op] + b
        return ["("] + toks + [")"] if r.random() < 0.4 else toks
    if q < 0.9:
        f = r.choice(["add", "sub", "mul"])
        return [f, "("] + expr(r, vars_, depth + 1) + [","] + expr(r, vars_, depth + 1) + [")"]
    return [r.choice(vars_), r.choice(["+", "-"]), str(r.randint(0, 3))]


def stmt_lines(r, vars_, depth=0):
    """list of lines (token lists) forming ONE statement (possibly a multi-line macro use)"""
    q = r.random()
    v = r.choice(vars_)
    if depth >= 2 or q < 0.4:
        return [[v, ":="] + expr(r, vars_)]
    if q < 0.55:
        cond = expr(r, vars_, 1)
        if cond[0] == "(":      # 'IFZ (' would be taken for the call syntax  <ID> ( <ARGS> )
            cond = ["0", "+"] + cond
        return ([["IFZ"] + cond + ["THEN"]] + seq_lines(r, vars_, depth + 1) + [["ELSE"]]
                + seq_lines(r, vars_, depth + 1) + [["FI"]])
    if q < 0.63:
        return [["REPEAT", r.choice([v, "2", "3"]), "TIMES"]] + seq_lines(r, vars_, depth + 1) + [["DONE"]]
    if q < 0.68:
        return [[r.choice(["TWICEOVER", "DRAIN"]), r.choice([v, "2", "3"]), "DO"]] + seq_lines(r, vars_, depth + 1) + [["OD"]]
    if q < 0.76:
        a, b = r.sample(vars_, 2)
        return [["SWAP", a, b]]
    if q < 0.82:
        a, b = r.sample(vars_, 2)
        return [[a, "ADDTO", b]]
    if q < 0.88:
        return [[v, "+", "=", str(r.randint(0, 4))]]
    if q < 0.92:
        return [["NOP"]]
    if q < 0.97:
        return [["LOOP", v, "DO"]] + seq_lines(r, vars_, depth + 1) + [["END"]]
    body = seq_lines(r, vars_, depth + 1)
    body[-1] = body[-1] + [";"]
    return [["WHILE", v, "!= 0", "DO"]] + body + [[v, ":=", v, "-", "1"], ["END"]]


def seq_lines(r, vars_, depth, n=None):
    n = n or r.randint(1, 3)
    out = []
    for i in range(n):
        ls = stmt_lines(r, vars_, depth)
        if i + 1 < n:
            ls[-1] = ls[-1] + [";"]
        out += ls
    return out


def library_program(r, layout=False):
    """a program that uses the library macros; definitions first in main or in an included file"""
    defs = list(LIB_MACROS)
    if r.random() < 0.5:
        r.shuffle(defs)   # the order of definition must not matter
    lines = []
    nprog = r.randint(0, 2)
    body_vars = ["p", "q", "x0", "t"]
    prog_lines = []
    for i in range(nprog):
        prog_lines.append(["PROGRAM", "g%d" % i, "IN", "p", ",", "q", "DO"])
        prog_lines += seq_lines(r, body_vars, 1)
        prog_lines.append(["END"])
    main_lines = [[v, ":=", str(r.randint(0, 4))] + [";"] for v in r.sample(VARS, 3)]
    main_lines += seq_lines(r, VARS, 0, r.randint(2, 5))
    for i in range(nprog):
        main_lines[-1] = main_lines[-1] + [";"]
        main_lines.append([r.choice(VARS), ":=", "g%d" % i, "("] + expr(r, VARS, 1) + [","] + expr(r, VARS, 1) + [")"])
    lib = HELPERS + "\n".join(defs) + "\n"
    body = prog_lines + main_lines
    if layout:
        text = layouts.random_layout([t for l in body for t in l], r)
    else:
        text = layouts.canonical(body)
    if r.random() < 0.6:
        # keywords are matched by kind: definitions and uses may spell them differently
        lib = layouts.respell(lib, r, 0.4)
        text = layouts.respell(text, r, 0.4)
    if r.random() < 0.5:
        files = {"main": 'include "lib"\n' + text, "lib": lib}
    else:
        files = {"main": lib + text}
    return files, "main", ["libmacros"]


# ---------------------------------------------------------------- random deterministic macros
WORDS = ["FOO", "BAR", "BAZ", "QUX", "ZIP", "WHEN", "UNLESS", "FROM", "UPTO", "LET", "BE", "OD", "NI"]
OPS = ["@", "%", "&", "|", "~", "^", "?", "!"]
SLOT_TEXT = {"ID": "<ID>", "INT": "<INT>", "V": "<V>", "ARGS": "<ARGS>", "P": "<P>"}
SLOT_KIND = {"ID": L.ID_TEMP, "INT": L.INT_TEMP, "V": L.VALUE_TEMP, "ARGS": L.ARGS_TEMP, "P": L.PROG_TEMP}


def _kind_of_literal(w):
    ts = L.tokenize(w)
    return ts[0][0]


def random_macro(r, idx, kind):
    """kind 'value' or 'stmt' -> dict(text, uses: function(r, vars)->token list / lines) or None"""
    for _ in range(30):
        n = r.randint(2, 5)
        pat = []
        slots = []
        for i in range(n):
            q = r.random()
            if i == 0 and kind == "stmt":
                pat.append(("lit", r.choice(WORDS) + str(idx)))
            elif q < 0.45:
                s = r.choice(["ID", "INT", "V", "V", "ARGS"] + (["P"] if kind == "stmt" else []))
                if pat and pat[-1][0] == "slot":
                    pat.append(("lit", r.choice(OPS + ["(", ")"])))
                pat.append(("slot", s))
                slots.append(s)
            elif q < 0.75:
                pat.append(("lit", r.choice(OPS)))
            else:
                pat.append(("lit", r.choice(WORDS) + str(idx)))
        if not slots:
            continue
        if kind == "value" and all(p[0] == "slot" for p in pat):
            continue
        kinds = [SLOT_KIND[p[1]] if p[0] == "slot" else _kind_of_literal(p[1]) for p in pat]
        if not patterns.deterministic(kinds):
            continue
        # value macros must not be a bare slot pattern (would rewrite forever) - guaranteed by a literal
        text_pat = " ".join(SLOT_TEXT[p[1]] if p[0] == "slot" else p[1] for p in pat)
        if kind == "value":
            vs = [i for i, s in enumerate(slots) if s in ("ID", "INT", "V")]
            if not vs:
                continue
            if len(vs) >= 2 and r.random() < 0.7:
                a, b = r.sample(vs, 2)
                body = "RUN %s WITH $%d, $%d END" % (r.choice(["add", "sub", "mul"]), a, b)
            else:
                body = "$%d" % r.choice(vs)
            # an ARGS slot can only be used inside a call of matching arity: leave it unused
        else:
            ids = [i for i, s in enumerate(slots) if s == "ID"]
            vals = [i for i, s in enumerate(slots) if s in ("ID", "INT", "V")]
            ps = [i for i, s in enumerate(slots) if s == "P"]
            parts = []
            if ids and vals:
                parts.append("$%d := $%d" % (r.choice(ids), r.choice(vals)))
            else:
                parts.append("#0 := %d" % r.randint(0, 3))
            if ps:
                cnt = ("$%d" % r.choice(ids)) if ids and r.random() < 0.5 else "#1"
                if cnt == "#1":
                    parts.append("#1 := %d" % r.randint(0, 3))
                parts.append("LOOP %s DO $%d END" % (cnt, ps[0]))
            body = " ; ".join(parts)
        prio = r.choice([0, 0, 7, 7, 15, 50, 2000000])
        text = "DEFINE %s%s AS %s END DEFINE" % ("PRIO %d " % prio if prio or r.random() < 0.3 else "", text_pat, body)
        return {"text": text, "pat": pat, "kind": kind, "slots": slots}
    return None


def wide_macro(r, idx, kind):
    """a macro with 11..26 slots whose body uses two-digit slot numbers ($10, $17, $23 ...); the uses give every slot a
    filler of its own, so a body that takes the tokens of another slot is visible in the stream and in the values"""
    for _ in range(30):
        n = r.randint(11, 26)
        sep = r.choice([None, None, ",", r.choice(OPS)])
        pat = [("lit", r.choice(WORDS) + str(idx))]
        slots = []
        for i in range(n):
            s = r.choice(["ID", "ID", "INT", "V"])
            if i and sep and (sep != "," or r.random() < 0.8):
                pat.append(("lit", sep))
            pat.append(("slot", s))
            slots.append(s)
        if r.random() < 0.5:
            pat.append(("lit", r.choice(WORDS) + str(idx)))
        kinds = [SLOT_KIND[p[1]] if p[0] == "slot" else _kind_of_literal(p[1]) for p in pat]
        if not patterns.deterministic(kinds):
            continue
        ids = [i for i, s in enumerate(slots) if s == "ID"]
        high = [i for i in range(10, n)]
        if kind == "value":
            a = r.choice(high)
            body = "$%d" % a if r.random() < 0.5 else "RUN %s WITH $%d, $%d END" % (r.choice(["add", "sub", "mul"]), a, r.randrange(n))
        else:
            if not ids:
                continue
            parts = []
            for _k in range(r.randint(1, 4)):
                parts.append("$%d := $%d" % (r.choice(ids), r.choice(high) if r.random() < 0.7 else r.randrange(n)))
            hid = [i for i in ids if i >= 10]
            if hid and r.random() < 0.6:
                parts.append("$%d := %d" % (r.choice(hid), r.randint(5, 9)))
            body = " ; ".join(parts)
        prio = r.choice([0, 7, 15])
        text = "DEFINE %s%s AS %s END DEFINE" % ("PRIO %d " % prio if prio else "", " ".join(SLOT_TEXT[p[1]] if p[0] == "slot" else p[1] for p in pat), body)
        return {"text": text, "pat": pat, "kind": kind, "slots": slots, "wide": True}
    return None


def use_macro(r, m, vars_, depth=0):
    """token list of one use of macro m"""
    toks = []
    for p in m["pat"]:
        if p[0] == "lit":
            toks.append(p[1])
        else:
            s = p[1]
            if s == "ID":
                toks.append(r.choice(vars_))
            elif s == "INT":
                toks.append(str(r.randint(0, 4)))
            elif s == "V":
                q = r.random()
                if q < 0.5:
                    toks.append(r.choice(vars_))
                elif q < 0.8:
                    toks.append(str(r.randint(0, 4)))
                else:
                    toks += ["RUN", "add", "WITH", r.choice(vars_), ",", str(r.randint(0, 3)), "END"]
            elif s == "ARGS":
                k = r.randint(1, 3)
                for i in range(k):
                    if i:
                        toks.append(",")
                    toks.append(r.choice(vars_ + ["1", "2"]))
            elif s == "P":
                k = r.randint(1, 2)
                for i in range(k):
                    if i:
                        toks.append(";")
                    toks += [r.choice(vars_), ":=", r.choice(vars_ + ["0", "1", "3"])]
    return toks


def random_macro_program(r):
    ms = []
    for i in range(r.randint(1, 4)):
        m = random_macro(r, i, r.choice(["value", "stmt"]))
        if m:
            ms.append(m)
    wide = None
    if r.random() < 0.2:
        wide = wide_macro(r, 9, r.choice(["value", "stmt"]))
        if wide:
            ms.append(wide)
    lines = [[v, ":=", str(r.randint(0, 4)), ";"] for v in r.sample(VARS, 3)]
    if wide:
        lines = [[v, ":=", str(k + 1), ";"] for k, v in enumerate(VARS)]
    n = r.randint(2, 6)
    for i in range(n):
        if ms and r.random() < 0.75:
            m = wide if wide and i == 0 else r.choice(ms)
            if m["kind"] == "value":
                l = [r.choice(VARS), ":="] + use_macro(r, m, VARS)
            else:
                l = use_macro(r, m, VARS)
        else:
            l = [r.choice(VARS), ":=", r.choice(VARS), "+", str(r.randint(0, 3))]
        if i + 1 < n:
            l.append(";")
        lines.append(l)
    defs = [m["text"] for m in ms]
    if r.random() < 0.5:
        defs = defs[::-1]
    text = HELPERS + "\n".join(defs) + "\n" + layouts.canonical(lines)
    return {"main": text}, "main", ["rndmacros"]
