"""Program generator (AST first, then printed) - DESIGN 3.5.

A program is {'defs': [{'name','params','out','body'}], 'main': body}; a body is a list of statements
  {'k': 'assign'|'loop'|'while'|'goto'|'if'|'stop'|'raw', 'label': optional str, ...}
values: ('var',n) ('const',c) ('inc',n,c) ('dec',n,c) ('call',name,[values]) ('raw',[token strings])
"""
from ..ref import lexer as L

VARS = ["x", "y", "z", "u", "w", "x0", "x1"]
LOCALS = ["x0", "t", "s", "r"]
KEYWORDS = set(w.lower() for ws in L.SPELL.values() for w in ws if w[0] != "<") | {"value", "val"}
SMALL = [0, 1, 2, 3, 5]
BOUNDARY = [2 ** 31 - 2, 2 ** 31 - 3, 2 ** 30, 2 ** 30 - 1, 2 ** 31 - 10, 65535, 46341]


class Opts:
    def __init__(self, **kw):
        self.max_defs = 3
        self.max_params = 2
        self.max_depth = 3
        self.main_len = (2, 6)
        self.body_len = (1, 4)
        self.p_label = 0.2
        self.allow_while = True
        self.allow_goto = True
        self.allow_stop = True
        self.allow_calls = True
        self.allow_sugar = True
        self.boundary = False
        self.count_loops = False      # C16: add a fresh counter to every LOOP body
        self.modify_bound = 0.0       # probability that a LOOP body assigns its bound variable
        self.unusual = False          # C03: out = parameter, no params, uncalled programs, redefinition
        self.p_redefine = 0.05
        self.init_vars = True         # give some variables non-zero start values
        self.call_depth = 2
        self.decrement_while = 0.85
        self.consts = SMALL
        self.__dict__.update(kw)


# names that are prefixes of one another, of the usual names, or of the names the code generator gives its own registers
PREFIX_NAMES = ["x10", "x12", "xx", "T", "Temporary", "L", "Loo", "Lo", "x00", "y1", "p", "p00"]
LONG_NAMES = ["a_rather_long_variable_name", "Zwischenergebnis_der_Berechnung_1", "v2345678901234567", "_" * 17]


class Gen:
    def __init__(self, rnd, opts=None):
        self.r = rnd
        self.o = opts or Opts()
        self.defs = []
        self.nlab = 0
        self.nloop = 0
        # identifier spellings: mostly short, sometimes longer than the small-string buffer of std::string
        self.long = rnd.random() < 0.25
        self.names = {}

    def nm(self, base):
        """spelling of an identifier (label / program name); a few are made long"""
        if not self.long:
            return base
        if base not in self.names:
            self.names[base] = base + ("_" + "x" * self.r.randint(12, 30) if self.r.random() < 0.5 else "")
        return self.names[base]

    def const(self):
        if self.o.boundary and self.r.random() < 0.3:
            return self.r.choice(BOUNDARY)
        return self.r.choice(self.o.consts)

    def val(self, vars_, depth=0):
        r = self.r.random()
        if r < 0.3:
            return ("var", self.r.choice(vars_))
        if r < 0.45:
            return ("const", self.const())
        if r < 0.65 and self.o.allow_sugar:
            c = self.r.randint(0, 3)
            if self.o.boundary and self.r.random() < 0.3:
                c = self.r.choice(BOUNDARY)
            return (self.r.choice(["inc", "dec"]), self.r.choice(vars_), c)
        if self.defs and self.o.allow_calls and depth < self.o.call_depth:
            d = self.r.choice(self.defs)
            return ("call", d["name"], [self.val(vars_, depth + 1) for _ in d["params"]])
        return ("var", self.r.choice(vars_))

    def body(self, vars_, depth, labels, n=None):
        n = n or self.r.randint(*self.o.body_len)
        return [self.stmt(vars_, depth, labels) for _ in range(n)]

    def stmt(self, vars_, depth, labels):
        st = {}
        o = self.o
        if self.r.random() < o.p_label and o.allow_goto:
            self.nlab += 1
            st["label"] = self.nm("L%d" % self.nlab)
            labels.append(st["label"])
        r = self.r.random()
        if r < 0.45 or depth >= o.max_depth:
            st.update(k="assign", var=self.r.choice(vars_), val=self.val(vars_))
        elif r < 0.62:
            v = self.r.choice(vars_)
            b = self.body(vars_, depth + 1, labels)
            if self.r.random() < o.modify_bound:
                b.insert(self.r.randrange(len(b) + 1),
                         {"k": "assign", "var": v, "val": self.r.choice([("const", self.const()), ("inc", v, 2),
                                                                        ("dec", v, 1), ("var", self.r.choice(vars_))])})
            if o.count_loops:
                self.nloop += 1
                c = "c%d" % self.nloop
                b.append({"k": "assign", "var": c, "val": ("inc", c, 1)})
            st.update(k="loop", var=v, body=b)
        elif r < 0.74 and o.allow_while:
            v = self.r.choice(vars_)
            b = self.body(vars_, depth + 1, labels)
            if self.r.random() < o.decrement_while:
                b.append({"k": "assign", "var": v, "val": ("dec", v, self.r.randint(1, 2))})
            st.update(k="while", var=v, body=b)
        elif r < 0.84 and o.allow_goto:
            st.update(k="goto", target=None)
        elif r < 0.96 and o.allow_goto:
            st.update(k="if", var=self.r.choice(vars_), c=self.r.randint(0, 3), target=None)
        elif o.allow_stop and r >= 0.96:
            st.update(k="stop")
        else:
            st.update(k="assign", var=self.r.choice(vars_), val=self.val(vars_))
        return st

    def fix(self, body, labels):
        """resolve jump targets to labels of the same routine body (any nesting level)"""
        def walk(b):
            for st in b:
                if st["k"] in ("goto", "if") and st["target"] is None:
                    if not labels:
                        if "label" not in body[-1]:
                            self.nlab += 1
                            body[-1]["label"] = self.nm("L%d" % self.nlab)
                        labels.append(body[-1]["label"])
                    st["target"] = self.r.choice(labels)
                if st["k"] in ("loop", "while"):
                    walk(st["body"])
        walk(body)

    def program(self):
        o = self.o
        ndefs = self.r.randint(0, o.max_defs)
        for i in range(ndefs):
            params = ["p%d" % j for j in range(self.r.randint(0, o.max_params))]
            vars_ = params + LOCALS[: self.r.randint(1, len(LOCALS))]
            if self.r.random() < 0.15:
                vars_ = vars_ + self.r.sample(PREFIX_NAMES, 2)
            out = None
            if params and self.r.random() < 0.5:
                out = self.r.choice(vars_)
            name = self.nm("f%d" % i)
            if self.defs and self.r.random() < o.p_redefine:
                name = self.r.choice(self.defs)["name"]   # redefinition of an earlier name
            labels = []
            b = self.body(vars_, 1, labels)
            self.fix(b, labels)
            self.defs.append({"name": name, "params": params, "out": out, "body": b})
        labels = []
        mvars = VARS + ([self.r.choice(LONG_NAMES)] if self.long else [])
        if self.r.random() < 0.2:
            mvars = mvars + self.r.sample(PREFIX_NAMES, 2)
        b = self.body(mvars, 0, labels, self.r.randint(*o.main_len))
        self.fix(b, labels)
        if o.init_vars:
            init = [{"k": "assign", "var": v, "val": ("const", self.r.choice([1, 2, 3, 4]))}
                    for v in self.r.sample(mvars, self.r.randint(0, 3))]
            b = init + b
        return {"defs": self.defs, "main": b}


# ---------------------------------------------------------------- printing
class Speller:
    """keyword spelling policy: 'upper' or random documented spelling per occurrence"""

    def __init__(self, rnd=None):
        self.r = rnd

    def __call__(self, kind):
        sp = L.SPELL[kind]
        if self.r is None:
            return sp[0]
        return self.r.choice(sp)


def val_tokens(v, kw):
    k = v[0]
    if k == "var":
        return [v[1]]
    if k == "const":
        return [str(v[1])]
    if k == "inc":
        return [v[1], "+", str(v[2])]
    if k == "dec":
        return [v[1], "-", str(v[2])]
    if k == "raw":
        return list(v[1])
    toks = [kw(L.RUN), v[1], kw(L.WITH)]
    for i, a in enumerate(v[2]):
        if i:
            toks.append(",")
        toks += val_tokens(a, kw)
    toks.append(kw(L.END))
    return toks


def to_lines(prog, kw=None):
    """canonical layout: one statement per line; returns list of token lists"""
    kw = kw or Speller()
    lines = []

    def body(b):
        for i, st in enumerate(b):
            last = i == len(b) - 1
            head = [st["label"], ":"] if st.get("label") else []
            k = st["k"]
            if k == "assign":
                lines.append(head + [st["var"], ":="] + val_tokens(st["val"], kw))
            elif k == "goto":
                lines.append(head + [kw(L.GOTO), st["target"]])
            elif k == "if":
                lines.append(head + [kw(L.IF), st["var"], "=", str(st["c"]), kw(L.THEN), kw(L.GOTO), st["target"]])
            elif k == "stop":
                lines.append(head + [kw(L.STOP)])
            elif k == "raw":
                lines.append(head + list(st["toks"]))
            elif k == "loop":
                lines.append(head + [kw(L.LOOP), st["var"], kw(L.DO)])
                body(st["body"])
                lines.append([kw(L.END)])
            elif k == "while":
                lines.append(head + [kw(L.WHILE), st["var"], "!= 0", kw(L.DO)])
                body(st["body"])
                lines.append([kw(L.END)])
            if not last:
                lines[-1] = lines[-1] + [";"]
    for d in prog["defs"]:
        h = [kw(L.PROGRAM), d["name"]]
        if d["params"]:
            h.append(kw(L.IN))
            for i, p in enumerate(d["params"]):
                if i:
                    h.append(",")
                h.append(p)
            if d["out"]:
                h += [kw(L.OUT), d["out"]]
        lines.append(h + [kw(L.DO)])
        body(d["body"])
        lines.append([kw(L.END)])
    body(prog["main"])
    return lines


def render(prog, kw=None):
    return "\n".join(" ".join(l) for l in to_lines(prog, kw))


def all_tokens(prog, kw=None):
    return [t for l in to_lines(prog, kw) for t in l]


def long_distance_sources(r):
    """programs whose jumps span more than 2^15 / 2^16 emitted instructions: LOOP and WHILE bodies, a PROGRAM body that the
    root has to jump over, forward and backward GOTOs.  -> list of (text, kind)"""
    out = []
    n = r.choice([17000, 23000, 33500])          # two instructions per statement line
    body = " ;\n".join("a := %d" % (i % 7) for i in range(n))
    out.append(("n := %d ;\nLOOP n DO\n%s ;\nc1 := c1 + 1\nEND ;\nz := c1" % (r.randint(0, 3), body), "long-loop"))
    out.append(("n := %d ;\nWHILE n != 0 DO\n%s ;\nk := k + 1 ;\nn := n - 1\nEND ;\nz := k" % (r.randint(0, 2), body), "long-while"))
    out.append(("PROGRAM big IN p DO\n%s ;\nx0 := p + 1\nEND\nx := RUN big WITH %d END ;\ny := x" % (body, r.randint(0, 5)), "long-program-body"))
    out.append(("k := %d ;\nIF k = 1 THEN GOTO far ;\n%s ;\nu := 5 ;\nfar : w := k + 1" % (r.randint(0, 1), body), "long-forward-goto"))
    out.append(("k := 0 ;\nback : k := k + 1 ;\n%s ;\nIF k = 1 THEN GOTO back ;\nw := k" % body, "long-backward-goto"))
    return out


class _First:
    """stands in for the random source when the smallest size of every dimension is wanted"""
    def __init__(self, r):
        self.r = r

    def choice(self, xs):
        return xs[0]

    def __getattr__(self, k):
        return getattr(self.r, k)


class _Last(_First):
    """... and when the largest size of every dimension is wanted"""
    def choice(self, xs):
        return xs[-1]


def scale_sources(r, which=None, small=False, large=False):
    """sources that are ordinary in every respect but one, which is pushed past 2^8 or 2^16: number of variables, definitions,
    parameters, labels, nesting depth, call-chain depth, identifier length, statements on one line, arguments of one call,
    included files, include depth, slots / statements / arguments in a macro use.  -> list of (files, main, kind)"""
    out = []
    if small:
        r = _First(r)
    elif large:
        r = _Last(r)

    def add(kind, text, files=None):
        f = dict(files or {})
        f["main"] = text
        out.append((f, "main", "scale-" + kind))
    n = r.choice([300, 1000, 4000])
    # (no +/- sugar in the very long sources: every rewrite costs a pass over the whole token stream)
    add("variables-%d" % n, " ;\n".join("v%d := %d" % (i, i % 7 + 1) for i in range(n)) + " ;\ns := v%d ;\nt := v0 ;\nv%d := s" % (n - 1, n // 2))
    n = r.choice([260, 300, 1100])
    sug = n < 500          # (beyond ~1000 uses the +/- sugar alone would exhaust the 1024 rewrites)
    add("locals-%d" % n, "PROGRAM f IN a DO\n" + " ;\n".join(("w%d := a + %d" % (i, i % 5)) if sug else ("w%d := %s" % (i, "a" if i % 2 else str(i % 5))) for i in range(n))
        + " ;\nx0 := w%d + 1\nEND\nx := RUN f WITH %d END ;\ny := RUN f WITH x END" % (n - 1, r.randint(0, 3)))
    n = r.choice([260, 300, 520, 1100])
    sug = n < 500
    defs = "\n".join("PROGRAM f%d IN a DO\nx0 := %s\nEND" % (i, ("a + %d" % (i % 5)) if sug else ("a" if i % 2 else str(i % 5))) for i in range(n))
    add("definitions-%d" % n, defs + "\n" + " ;\n".join("r%d := RUN f%d WITH %d END" % (i, i, i % 3 + 1) for i in [0, 1, 127, 128, 129, 255, 256, 257, n - 2, n - 1]))
    n = r.choice([130, 260, 300, 1100])
    sug = n < 500
    stop = r.random() < 0.5
    chain = ["PROGRAM f0 IN a DO\nx0 := a + 1%s\nEND" % (" ;\nSTOP" if stop else "")]
    for i in range(1, n):
        chain.append("PROGRAM f%d IN a DO\nt := RUN f%d WITH a END ;\nx0 := t%s\nEND" % (i, i - 1, " + 1" if sug else ""))
    add("call-chain-%d%s" % (n, "-stop" if stop else ""), "\n".join(chain) + "\nx := RUN f%d WITH %d END ;\ny := x" % (n - 1, r.randint(0, 2)))
    n = r.choice([20, 40, 260, 1100])
    ps = ["p%d" % i for i in range(n)]
    add("parameters-%d" % n, "PROGRAM g IN %s OUT p%d DO\np%d := p%d + 3 ;\np%d := p%d + 1\nEND\n" % (" , ".join(ps), n - 1, n - 1, n - 2, n - 1, n - 1)
        + "x := RUN g WITH %s END" % " , ".join(str(i + 1) for i in range(n)))
    n = r.choice([70, 150, 260, 1100])
    add("loop-nesting-%d" % n, "a := 1 ;\n" + "\n".join("LOOP a DO" for _ in range(n)) + "\nc := c + 1\n" + "\n".join("END" for _ in range(n)) + " ;\nd := c")
    add("while-nesting-%d" % n, "".join("a%d := 1 ;\n" % i for i in range(n)) + "\n".join("WHILE a%d != 0 DO" % i for i in range(n)) + "\nc := c + 1 ;\n"
        + " ;\n".join(("a%d := a%d - 1\nEND" % (i, i)) if n < 500 else ("a%d := 0\nEND" % i) for i in reversed(range(n))) + " ;\nd := c")
    n = r.choice([260, 300, 1000, 4200])
    order = list(range(n))
    r.shuffle(order)
    nxt = {order[j]: order[j + 1] for j in range(n - 1)}
    add("labels-%d" % n, "GOTO L%d ;\n" % order[0] + " ;\n".join("L%d : a%d := %d ;\n%s" % (i, i % 7, i % 9, "GOTO L%d" % nxt[i] if i in nxt else "GOTO fin") for i in range(n))
        + " ;\nz := 9 ;\nfin : y := a3")
    n = r.choice([300, 70000])
    nm = "v" + "a" * n
    add("identifier-length-%d" % n, "PROGRAM f%s IN q%s DO\nx0 := q%s + 2\nEND\n%s := 3 ;\n%sb := %s + 1 ;\nz := RUN f%s WITH %sb END" % (nm, nm, nm, nm, nm, nm, nm, nm))
    n = r.choice([300, 5000])
    add("statements-on-one-line-%d" % n, " ; ".join("a%d := %d" % (i % 5, i % 7) for i in range(n)) + " ;\nb := a3")
    n = r.choice([260, 300, 1100])
    files = {"i%d" % i: ("k := k + %d ;" % (i % 3)) if n < 500 else ("k%d := %d ;" % (i % 9, i % 7)) for i in range(n)}
    add("included-files-%d" % n, "".join('include "i%d"\n' % i for i in range(n)) + "z := k" + ("" if n < 500 else "3"), files)
    n = r.choice([130, 260, 1100])
    files = {"d%d" % i: ('k := k + 1 ;\ninclude "d%d"\nm := m + 1 ;' % (i + 1)) if n < 500 else ('k%d := %d ;\ninclude "d%d"\nm%d := k%d ;' % (i % 9, i % 7, i + 1, i % 5, (i + 3) % 9))
             for i in range(n)}
    files["d%d" % n] = "q := k ;"
    add("include-depth-%d" % n, 'include "d0"\nz := m', files)
    # macro uses of unusual size
    from . import macrosets as MS
    n = r.choice([40, 260, 1100])
    add("macro-call-arguments-%d" % n, "PROGRAM g IN %s DO x0 := p%d + 1 END\nDEFINE PRIO 30 <ID> ( <ARGS> ) AS RUN $0 WITH $1 END END DEFINE\nx := g ( %s )"
        % (" , ".join("p%d" % i for i in range(n)), n - 1, " , ".join(str(i + 2) for i in range(n))))
    n = r.choice([100, 300])
    add("macro-statement-slot-%d" % n, "DEFINE REPEAT <V> TIMES <P> DONE AS #0 := $0 ; LOOP #0 DO $1 END END DEFINE\nREPEAT 2 TIMES\n"
        + " ;\n".join("a%d := a%d + %d" % (i % 7, i % 7, i % 3) for i in range(n)) + "\nDONE ;\nz := a0")
    n = r.choice([30, 70])
    add("macro-definitions-%d" % n, "\n".join("DEFINE PRIO %d SET%d <ID> AS $0 := %d END DEFINE" % (i % 9, i, i) for i in range(n)) + "\n"
        + " ;\n".join("SET%d x%d" % (i, i) for i in [0, 1, n // 2, n - 1]))
    n = r.choice([200, 450])
    add("macro-uses-%d" % n, "DEFINE INC <ID> AS $0 := $0 + 1 END DEFINE\n" + " ;\n".join("INC a%d" % (i % 5) for i in range(n)) + " ;\nz := a0")
    if which is not None:
        out = [o for o in out if which in o[2]]
    return out


def no_variable_sources(r):
    """root scripts that own no variable at all (frame of zero words): only labels, GOTO and STOP, optionally after program
    definitions that are never called or that own only their OUT variable.  -> list of (files, main, kind)"""
    defs = ["", "PROGRAM f IN p DO\nx0 := p\nEND\n", "PROGRAM f DO\nSTOP\nEND\nPROGRAM g IN a, b OUT b DO\nb := a\nEND\n", "PROGRAM h DO\nk : GOTO k\nEND\n"]
    mains = ["STOP", "a : GOTO b ;\nb : STOP", "GOTO fin ;\nm : STOP ;\nfin : GOTO m", "m : STOP ;\nGOTO m", "a : GOTO a", "GOTO c ;\nb : GOTO d ;\nc : GOTO b ;\nd : STOP ;\nSTOP",
             "a : GOTO b ;\nb : GOTO c ;\nc : GOTO a"]
    out = []
    for d in r.sample(defs, 2):
        for m in r.sample(mains, 3):
            out.append(({"main": d + m}, "main", "no-variables"))
    return out
